(* Sequential model of pkg/machine: mutation entry points, the queue, one
   transition (newTransition + emitEvents), handlers as scripted data, the
   tracer event log. Mirrors machine.go / transition.go function by function
   including the quirks (in-place slices.Delete while ranging in
   emitSelfEvents, `ret` of the last self handler, partial auto acceptance,
   the Exit-veto crash of auto transitions). Proof-free.

   Nothing depends on Go map iteration any more (fixes of NewAutoMutation and
   graph.TopologicalSort): the auto mutation calls the candidates in
   StateNames order and the resolver topology is Resolver.topo_sort. *)

From Coq Require Import List Bool Arith NArith.
From AMV Require Import Base.ListSet Model.Schema Model.Resolver.
Import ListNotations.

(* ------------------------------------------------------------ types *)

Inductive hkey :=
| HExit (s : nat) | HEnter (s : nat) | HSelf (s : nat) | HTrans (a b : nat)
| HAnyEnter | HEnd (s : nat) | HState (s : nat) | HAnyState.

Definition hkey_eqb (a b : hkey) : bool :=
  match a, b with
  | HExit x, HExit y | HEnter x, HEnter y | HSelf x, HSelf y
  | HEnd x, HEnd y | HState x, HState y => Nat.eqb x y
  | HTrans a1 b1, HTrans a2 b2 => Nat.eqb a1 a2 && Nat.eqb b1 b2
  | HAnyEnter, HAnyEnter | HAnyState, HAnyState => true
  | _, _ => false
  end.

Definition is_final_key (k : hkey) : bool :=
  match k with HEnd _ | HState _ | HAnyState => true | _ => false end.

Inductive api_kind := KAdd | KRemove | KSet | KToggle | KAddErr | KCanAdd | KCanRemove.

Record api_call := { ac_kind : api_kind; ac_states : list nat; ac_args : bool }.

Inductive fault := FNone | FPanic | FStall.

(* what one handler invocation does *)
Record haction := { ha_ret : bool; ha_calls : list api_call; ha_fault : fault }.
Definition default_action : haction := {| ha_ret := true; ha_calls := []; ha_fault := FNone |}.

Inductive result := Executed | Canceled | Queued (tick : N).

Definition result_eqb (a b : result) : bool :=
  match a, b with
  | Executed, Executed | Canceled, Canceled => true
  | Queued x, Queued y => N.eqb x y
  | _, _ => false
  end.

Record mutation := {
  mu_type : mut_type;
  mu_called : list nat;
  mu_auto : bool;
  mu_check : bool;
  mu_args : bool;          (* len(Args) > 0 *)
  mu_qtick : N             (* 0 for prepended mutations *)
}.

(* one handler call, as the recording handlers see it *)
Record hlentry := {
  hl_key : hkey;
  hl_binding : nat;
  hl_active : list nat;      (* Machine.ActiveStates(nil) inside the handler *)
  hl_clock : list N;         (* Machine.Time(nil) inside the handler *)
  hl_results : list result;  (* results of the mutations it issued *)
  hl_ret : bool              (* what the handler returned (negotiation) *)
}.

Record txrec := {
  tx_type : mut_type;
  tx_called : list nat;
  tx_auto : bool;
  tx_check : bool;
  tx_qtick : N;
  tx_before : list N;          (* TimeBefore *)
  tx_after : list N;           (* TimeAfter at TransitionEnd *)
  tx_active_before : list nat; (* StatesBefore() *)
  tx_target : list nat;        (* TargetStates() at TransitionEnd *)
  tx_accepted : bool;          (* IsAccepted at TransitionEnd *)
  tx_mach_after : list N;      (* Machine.Time(nil) sampled in TransitionEnd *)
  tx_hfrom : nat;              (* handler-log range [hfrom, hto) of this tx *)
  tx_hto : nat
}.

(* tracer events *)
Inductive tev :=
| EvQueued (auto check : bool)   (* MutationQueued *)
| EvInit | EvStart | EvFinals | EvEnd
| EvQueueEnd.

Definition tev_eqb (a b : tev) : bool :=
  match a, b with
  | EvQueued a1 c1, EvQueued a2 c2 => Bool.eqb a1 a2 && Bool.eqb c1 c2
  | EvInit, EvInit | EvStart, EvStart | EvFinals, EvFinals | EvEnd, EvEnd
  | EvQueueEnd, EvQueueEnd => true
  | _, _ => false
  end.

(* machine + run state *)
Record st := {
  sc : schema;
  topo : list nat;
  health : list nat;            (* indexes of Healthcheck / Heartbeat, if defined *)
  exc : nat;                    (* index of Exception *)
  bindings : list (list hkey);  (* bound handler sets, in binding order *)
  qlimit : N;
  clock : list N;
  active : list nat;
  queue : list mutation;
  qtick : N;
  qpending : N;
  actions : list haction;       (* remaining scripted handler actions *)
  (* logs, newest first *)
  hlog : list hlentry;
  txs : list txrec;
  evs : list tev;
  crashed : bool;               (* a panic escaped to the caller *)
  loop_dead : bool;             (* the handler goroutine died and was not restarted *)
  hung : bool;                  (* a call blocked forever on the dead handler loop *)
  err_code : N                  (* Machine.Err(): 0 nil, 1 AddErr error, 2 recovered panic *)
}.

Definition has_handlers (s : st) : bool := negb (Nat.eqb (length (bindings s)) 0).

Definition is_active (s : st) (x : nat) : bool := mem x (active s).
(* Machine.Is *)
Definition mach_is (s : st) (l : list nat) : bool := forallb (is_active s) l.
(* Machine.Not *)
Definition mach_not (s : st) (l : list nat) : bool := none_in (active s) (uniq l).

Definition set_queue (s : st) q :=
  {| sc := sc s; topo := topo s; health := health s; exc := exc s; bindings := bindings s;
     qlimit := qlimit s; clock := clock s; active := active s; queue := q;
     qtick := qtick s; qpending := qpending s; actions := actions s;
     hlog := hlog s; txs := txs s; evs := evs s; crashed := crashed s; loop_dead := loop_dead s; hung := hung s; err_code := err_code s |}.

Definition set_ticks (s : st) qt qp :=
  {| sc := sc s; topo := topo s; health := health s; exc := exc s; bindings := bindings s;
     qlimit := qlimit s; clock := clock s; active := active s; queue := queue s;
     qtick := qt; qpending := qp; actions := actions s;
     hlog := hlog s; txs := txs s; evs := evs s; crashed := crashed s; loop_dead := loop_dead s; hung := hung s; err_code := err_code s |}.

Definition set_mach (s : st) cl ac :=
  {| sc := sc s; topo := topo s; health := health s; exc := exc s; bindings := bindings s;
     qlimit := qlimit s; clock := cl; active := ac; queue := queue s;
     qtick := qtick s; qpending := qpending s; actions := actions s;
     hlog := hlog s; txs := txs s; evs := evs s; crashed := crashed s; loop_dead := loop_dead s; hung := hung s; err_code := err_code s |}.

Definition set_actions (s : st) a :=
  {| sc := sc s; topo := topo s; health := health s; exc := exc s; bindings := bindings s;
     qlimit := qlimit s; clock := clock s; active := active s; queue := queue s;
     qtick := qtick s; qpending := qpending s; actions := a;
     hlog := hlog s; txs := txs s; evs := evs s; crashed := crashed s; loop_dead := loop_dead s; hung := hung s; err_code := err_code s |}.

Definition set_hlog (s : st) h :=
  {| sc := sc s; topo := topo s; health := health s; exc := exc s; bindings := bindings s;
     qlimit := qlimit s; clock := clock s; active := active s; queue := queue s;
     qtick := qtick s; qpending := qpending s; actions := actions s;
     hlog := h; txs := txs s; evs := evs s; crashed := crashed s; loop_dead := loop_dead s; hung := hung s; err_code := err_code s |}.

Definition add_tx (s : st) t :=
  {| sc := sc s; topo := topo s; health := health s; exc := exc s; bindings := bindings s;
     qlimit := qlimit s; clock := clock s; active := active s; queue := queue s;
     qtick := qtick s; qpending := qpending s; actions := actions s;
     hlog := hlog s; txs := t :: txs s; evs := evs s; crashed := crashed s; loop_dead := loop_dead s; hung := hung s; err_code := err_code s |}.

Definition add_ev (s : st) e :=
  {| sc := sc s; topo := topo s; health := health s; exc := exc s; bindings := bindings s;
     qlimit := qlimit s; clock := clock s; active := active s; queue := queue s;
     qtick := qtick s; qpending := qpending s; actions := actions s;
     hlog := hlog s; txs := txs s; evs := e :: evs s; crashed := crashed s; loop_dead := loop_dead s; hung := hung s; err_code := err_code s |}.

Definition set_crashed (s : st) :=
  {| sc := sc s; topo := topo s; health := health s; exc := exc s; bindings := bindings s;
     qlimit := qlimit s; clock := clock s; active := active s; queue := queue s;
     qtick := qtick s; qpending := qpending s; actions := actions s;
     hlog := hlog s; txs := txs s; evs := evs s; crashed := true; loop_dead := loop_dead s; hung := hung s; err_code := err_code s |}.

Definition set_fault_flags (s : st) (dead hg : bool) (ec : N) :=
  {| sc := sc s; topo := topo s; health := health s; exc := exc s; bindings := bindings s;
     qlimit := qlimit s; clock := clock s; active := active s; queue := queue s;
     qtick := qtick s; qpending := qpending s; actions := actions s;
     hlog := hlog s; txs := txs s; evs := evs s; crashed := crashed s;
     loop_dead := dead; hung := hg; err_code := ec |}.

(* ------------------------------------------------------------ clocks *)

Definition tick_at (cl : list N) (i : nat) (d : N) : list N :=
  map (fun p => if Nat.eqb (fst p) i then (snd p + d)%N else snd p)
      (combine (seq 0 (length cl)) cl).

(* Machine.setActiveStates: returns the new clock *)
Definition set_active_clock (sc : schema) (cl : list N) (prev called target : list nat)
  : list N :=
  let removed := diff prev target in
  let cl1 := fold_left (fun c name =>
      if negb (mem name prev) then tick_at c name 1
      else if mem name called && s_multi (sget sc name) then tick_at c name 2
      else c) target cl in
  fold_left (fun c name => tick_at c name 1) removed cl1.

(* ------------------------------------------------------------ queue *)

(* Machine.IsQueued(type, states, withoutArgsOnly=true, strict=true, 0, false, PositionAny) *)
Definition is_dup (q : list mutation) (mt : mut_type) (states : list nat) : bool :=
  existsb (fun mu =>
    negb (mu_check mu) && mut_type_eqb (mu_type mu) mt && negb (mu_args mu)
    && Nat.eqb (length (mu_called mu)) (length states)
    && every (mu_called mu) states) q.

Definition qlen (s : st) : N := N.of_nat (length (queue s)).

(* queueMutation: returns the queue tick (0 = skipped duplicate) *)
Definition queue_mutation (s : st) (mt : mut_type) (states : list nat) (args : bool)
  : st * N :=
  let parsed := uniq states in
  let multi := existsb (fun x => s_multi (sget (sc s) x)) parsed in
  if negb multi && negb args && is_dup (queue s) mt parsed then (s, 0%N)
  else
    let qp := (qpending s + 1)%N in
    let tick := (qp + qtick s)%N in
    let mu := {| mu_type := mt; mu_called := parsed; mu_auto := false; mu_check := false;
                 mu_args := args; mu_qtick := tick |} in
    let s1 := set_ticks (set_queue s (queue s ++ [mu])) (qtick s) qp in
    (add_ev s1 (EvQueued false false), tick).

(* PrependMut (without the processQueue call) *)
Definition prepend_mut (s : st) (mu : mutation) : st :=
  add_ev (set_queue s (mu :: queue s)) (EvQueued (mu_auto mu) (mu_check mu)).

(* A mutation API call made while the queue is being processed (from a
   handler): it only queues. Returns the Result the caller sees. *)
Definition limit_hit (s : st) : bool := (qlimit s <=? qlen s)%N.

Definition nested_add (s : st) (states : list nat) (args : bool) : st * result :=
  if limit_hit s && (negb (mem (exc s) states) || is_active s (exc s)) then (s, Canceled)
  else
    let '(s1, tick) := queue_mutation s MAdd states args in
    if (tick =? 0)%N then (s1, Executed) else (s1, Queued tick).

Definition nested_remove (s : st) (states : list nat) (args : bool) : st * result :=
  if limit_hit s && (negb (mem (exc s) states) || negb (is_active s (exc s))) then (s, Canceled)
  else if Nat.eqb (length (queue s)) 0 && negb (existsb (is_active s) states)
  then (s, Executed)     (* a transition is in flight: Transition() != nil *)
  else
    let '(s1, tick) := queue_mutation s MRemove states args in
    if (tick =? 0)%N then (s1, Executed) else (s1, Queued tick).

Definition nested_set (s : st) (states : list nat) (args : bool) : st * result :=
  if limit_hit s then (s, Canceled)
  else
    let '(s1, tick) := queue_mutation s MSet states args in
    if (tick =? 0)%N then (s1, Executed) else (s1, Queued tick).

Definition check_mut (mt : mut_type) (states : list nat) (args : bool) : mutation :=
  {| mu_type := mt; mu_called := states; mu_auto := false; mu_check := true;
     mu_args := args; mu_qtick := 0 |}.

Definition nested_api (s : st) (c : api_call) : st * result :=
  match ac_kind c with
  | KAdd => nested_add s (ac_states c) (ac_args c)
  | KRemove => nested_remove s (ac_states c) (ac_args c)
  | KSet => nested_set s (ac_states c) (ac_args c)
  | KToggle => if mach_is s (ac_states c) then nested_remove s (ac_states c) (ac_args c)
               else nested_add s (ac_states c) (ac_args c)
  | KAddErr => if limit_hit s then (s, Canceled)
               else nested_add (set_fault_flags s (loop_dead s) (hung s) 1) [exc s; exc s] true
  | KCanAdd => (prepend_mut s (check_mut MAdd (ac_states c) (ac_args c)), Queued 2)
  | KCanRemove => (prepend_mut s (check_mut MRemove (ac_states c) false), Queued 2)
  end.

(* ------------------------------------------------------------ handlers *)

Fixpoint run_calls (s : st) (cs : list api_call) : st * list result :=
  match cs with
  | [] => (s, [])
  | c :: r => let '(s1, res) := nested_api s c in
              let '(s2, rs) := run_calls s1 r in (s2, res :: rs)
  end.

(* the in-flight transition *)
Record tstate := {
  t_mut : mutation;
  t_before : list nat;
  t_clock_before : list N;
  t_target : list nat;
  t_enters : list nat;
  t_exits : list nat;
  t_accepted : bool;
  t_invalid : bool     (* IsCompleted was set by recoverToErr: Event.IsValid() is false,
                          further handlers of this transition are not executed *)
}.

Definition with_target (t : tstate) (tg : list nat) : tstate :=
  {| t_mut := t_mut t; t_before := t_before t; t_clock_before := t_clock_before t;
     t_target := tg; t_enters := t_enters t; t_exits := t_exits t; t_accepted := t_accepted t; t_invalid := t_invalid t |}.

Definition with_accepted (t : tstate) (a : bool) : tstate :=
  {| t_mut := t_mut t; t_before := t_before t; t_clock_before := t_clock_before t;
     t_target := t_target t; t_enters := t_enters t; t_exits := t_exits t; t_accepted := a; t_invalid := t_invalid t |}.

Definition with_panicked (t : tstate) : tstate :=
  {| t_mut := t_mut t; t_before := t_before t; t_clock_before := t_clock_before t;
     t_target := t_target t; t_enters := t_enters t; t_exits := t_exits t; t_accepted := false;
     t_invalid := true |}.

(* Machine.recoverFinalPhase: walks exits ++ enters and, from the state the
   failing handler belongs to (latestHandlerToState: the state for FooState
   and FooEnd, "Any" for AnyState), reverts the states whose final handlers
   did not complete - activations by removing, deactivations by re-adding;
   then re-ticks through setActiveStates. *)
Definition key_to_state (k : hkey) : option nat :=
  match k with
  | HState x | HEnd x | HEnter x | HSelf x => Some x
  | HTrans _ _ | HExit _ | HAnyEnter | HAnyState => None
  end.

Fixpoint recover_walk (to : option nat) (enters : list nat) (found : bool)
  (finals : list nat) (act : list nat) : list nat :=
  match finals with
  | [] => act
  | x :: r =>
    let found' := found || match to with Some y => Nat.eqb x y | None => false end in
    if found' then
      recover_walk to enters found' r
        (if mem x enters then without act x else if mem x act then act else act ++ [x])
    else recover_walk to enters found' r act
  end.

Definition recover_final_phase (s : st) (t : tstate) (k : hkey) : st :=
  let act := recover_walk (key_to_state k) (t_enters t) false
                          (t_exits t ++ t_enters t) (active s) in
  let cl := set_active_clock (sc s) (clock s) (active s) (mu_called (t_mut t)) act in
  set_mach s cl act.

(* Machine.recoverToErr. Returns the state; the caller marks the transition
   not accepted. When the running mutation itself calls Exception nothing is
   done besides restarting the handler loop (since the fix of recoverToErr;
   before it the loop was not restarted and the next handler call blocked
   forever - the [loop_dead]/[hung] flags remain in the state for that). *)
Definition recover_to_err (s : st) (t : tstate) (k : hkey) : st :=
  if mem (exc s) (mu_called (t_mut t)) then s   (* no nesting: nothing but the loop restart *)
  else
    let s1 := set_fault_flags s (loop_dead s) (hung s) 2 in
    let s2 := if is_final_key k then recover_final_phase s1 t k else s1 in
    prepend_mut s2 {| mu_type := MAdd; mu_called := [exc s]; mu_auto := false;
                      mu_check := false; mu_args := true; mu_qtick := 0 |}.

(* result of one handler event *)
Record hres := {
  hr_ok : bool;          (* not Canceled *)
  hr_invalidated : bool  (* recoverToErr marked the transition completed / not accepted *)
}.

Definition exc_called (s : st) (t : tstate) : bool := mem (exc s) (mu_called (t_mut t)).

(* Machine.handle / processHandlers for one event name: calls every binding
   that defines it, in binding order. A negotiation handler returning false
   stops; a panic is recovered (recoverToErr) and counts as Canceled - for
   final handlers the remaining bindings are still visited; a stall longer
   than HandlerTimeout returns Canceled at once. Once recoverToErr has marked
   the transition completed, Event.IsValid() is false: the handler function
   is not executed any more (no scripted action is consumed) and the call
   yields false. [caught] is Machine.panicCaught. *)
Fixpoint call_bindings (s : st) (t : tstate) (k : hkey) (bs : list (list hkey)) (bi : nat)
  (caught inv : bool) : st * hres :=
  match bs with
  | [] => (s, {| hr_ok := negb caught; hr_invalidated := inv && negb (t_invalid t) |})
  | b :: rest =>
    if existsb (hkey_eqb k) b then
      if loop_dead s then
        (* nobody receives on handlerStart any more: the caller blocks forever *)
        (set_fault_flags s true true (err_code s),
         {| hr_ok := false; hr_invalidated := inv && negb (t_invalid t) |})
      else if inv then
        (* [handler:invalid]: ret = false *)
        if is_final_key k then call_bindings s t k rest (S bi) caught inv
        else (s, {| hr_ok := false; hr_invalidated := negb (t_invalid t) |})
      else
      let a := hd default_action (actions s) in
      let s0 := set_actions s (tl (actions s)) in
      let snap_active := active s0 in
      let snap_clock := clock s0 in
      let '(s1, rs) := run_calls s0 (ha_calls a) in
      let e := {| hl_key := k; hl_binding := bi; hl_active := snap_active;
                  hl_clock := snap_clock; hl_results := rs; hl_ret := ha_ret a |} in
      let s2 := set_hlog s1 (e :: hlog s1) in
      match ha_fault a with
      | FPanic =>
        let s3 := recover_to_err s2 t k in
        let inv' := negb (exc_called s t) in
        if is_final_key k then call_bindings s3 t k rest (S bi) true inv'
        else (s3, {| hr_ok := false; hr_invalidated := inv' |})
      | FStall => (s2, {| hr_ok := false; hr_invalidated := false |})
      | FNone =>
        if negb (is_final_key k) && negb (ha_ret a)
        then (s2, {| hr_ok := false; hr_invalidated := false |})
        else call_bindings s2 t k rest (S bi) caught inv
      end
    else call_bindings s t k rest (S bi) caught inv
  end.

(* returns (state, transition, not canceled) *)
Definition handle (s : st) (t : tstate) (k : hkey) : st * tstate * bool :=
  let '(s1, r) := call_bindings s t k (bindings s) 0 false (t_invalid t) in
  (s1, if hr_invalidated r then with_panicked t else t, hr_ok r).

(* ------------------------------------------------------------ transition *)

Definition is_auto_state (s : st) (x : nat) : bool := s_auto (sget (sc s) x).

(* slices.Delete(target, idx, idx+1) on a duplicate-free list *)
Definition delete_state (l : list nat) (x : nat) : list nat := without l x.

Definition with_exit_enter (sc : schema) (topo : list nat) (active : list nat) (t : tstate) : tstate :=
  let exits := sort_states sc topo (diff active (t_target t)) in
  let enters := filter (fun x => negb (mem x active)
                          || (s_multi (sget sc x) && mem x (mu_called (t_mut t)))) (t_target t) in
  {| t_mut := t_mut t; t_before := t_before t; t_clock_before := t_clock_before t;
     t_target := t_target t; t_enters := enters; t_exits := exits; t_accepted := t_accepted t;
     t_invalid := t_invalid t |}.

Definition rctx_of (s : st) (t : tstate) : rctx :=
  {| rc_schema := sc s; rc_before := t_before t; rc_mtype := mu_type (t_mut t);
     rc_called := mu_called (t_mut t); rc_topology := topo s |}.

(* Transition.setupAccepted *)
Definition setup_accepted (s : st) (mu : mutation) (target : list nat) : bool :=
  match mu_type mu with
  | MRemove => true
  | _ =>
    let called := mu_called mu in
    let not_accepted := diff called target in
    if mu_auto mu && (length not_accepted <? length called) then true
    else
      let acc0 := negb (mu_auto mu) in   (* auto with all rejected: IsAccepted := false *)
      if Nat.eqb (length not_accepted) 0 then acc0
      else if mu_check mu && existsb (fun x => s_multi (sget (sc s) x)) called then acc0
      else false
  end.

(* newTransition *)
Definition new_transition (s : st) (mu : mutation) : tstate :=
  let c := {| rc_schema := sc s; rc_before := active s; rc_mtype := mu_type mu;
              rc_called := mu_called mu; rc_topology := topo s |} in
  let target := target_states c (states_to_set (mu_type mu) (mu_called mu) (active s)) in
  let acc := setup_accepted s mu target in
  let t := {| t_mut := mu; t_before := active s; t_clock_before := clock s;
              t_target := target; t_enters := []; t_exits := []; t_accepted := acc; t_invalid := false |} in
  if acc then with_exit_enter (sc s) (topo s) (active s) t else t.

(* negotiation outcome *)
Inductive nres := NOk | NCancel | NCrash.

(* emitExitEvents *)
Fixpoint emit_exits (s : st) (t : tstate) (l : list nat) : st * tstate * nres :=
  match l with
  | [] => (s, t, NOk)
  | x :: r =>
    let '(s1, t1, ok) := handle s t (HExit x) in
    if hung s1 then (s1, t1, NCancel)
    else if ok then emit_exits s1 t1 r
    else if mu_auto (t_mut t1) && is_auto_state s x then
      (* an exiting state is never in the target: the veto cancels (before the
         fix of emitExitEvents slices.Delete(_, -1, 0) panicked here) *)
      if mem x (t_target t1) then emit_exits s1 (with_target t1 (delete_state (t_target t1) x)) r
      else (s1, t1, NCancel)
    else (s1, t1, NCancel)
  end.

(* emitEnterEvents *)
Fixpoint emit_enters (s : st) (t : tstate) (l : list nat) : st * tstate * nres :=
  match l with
  | [] => (s, t, NOk)
  | x :: r =>
    let '(s1, t1, ok) := handle s t (HEnter x) in
    if hung s1 then (s1, t1, NCancel)
    else if ok then emit_enters s1 t1 r
    else if mu_auto (t_mut t1) && is_auto_state s x then
      if mem x (t_target t1) then emit_enters s1 (with_target t1 (delete_state (t_target t1) x)) r
      else (s1, t1, NCrash)
    else (s1, t1, NCancel)
  end.

(* emitSelfEvents. The Go loop ranges over the slice header taken at loop
   start (length L) while slices.Delete shifts the same backing array in
   place and zeroes the tail: [arr] is that array (None = zeroed slot), [i]
   the loop index. [last] is the Go variable `ret`: the result of the last
   handle call. *)
Fixpoint shift_delete (arr : list (option nat)) (x : nat) : list (option nat) :=
  match arr with
  | [] => []
  | Some y :: r => if Nat.eqb x y then r ++ [None] else Some y :: shift_delete r x
  | None :: r => None :: shift_delete r x
  end.

Fixpoint emit_selfs (fuel : nat) (s : st) (t : tstate) (arr : list (option nat))
  (i : nat) (last : bool) : st * tstate * nres :=
  match fuel with
  | O => (s, t, if last then NOk else NCancel)
  | S f =>
    match nth_error arr i with
    | None => (s, t, if last then NOk else NCancel)
    | Some None => emit_selfs f s t arr (S i) last      (* Is("") = false *)
    | Some (Some x) =>
      if negb (is_active s x) then emit_selfs f s t arr (S i) last
      else
        let '(s1, t1, ok) := handle s t (HSelf x) in
        if hung s1 then (s1, t1, NCancel)
        else if ok then emit_selfs f s1 t1 arr (S i) true
        else if mu_auto (t_mut t1) && is_auto_state s x then
          if mem x (t_target t1) then
            emit_selfs f s1 (with_target t1 (delete_state (t_target t1) x))
                       (shift_delete arr x) (S i) false
          else (s1, t1, NCrash)
        else (s1, t1, NCancel)
    end
  end.

(* emitStateStateEvents: [after] is fixed at loop start, deletions go to the
   clone (t_target) *)
Fixpoint emit_trans_inner (s : st) (t : tstate) (b : nat) (after : list nat)
  : st * tstate * nres :=
  match after with
  | [] => (s, t, NOk)
  | a :: r =>
    if Nat.eqb b a then emit_trans_inner s t b r
    else
      let '(s1, t1, ok) := handle s t (HTrans b a) in
      if hung s1 then (s1, t1, NCancel)
      else if ok then emit_trans_inner s1 t1 b r
      else if mu_auto (t_mut t1) && is_auto_state s a then
        emit_trans_inner s1 (with_target t1 (delete_state (t_target t1) a)) b r
      else (s1, t1, NCancel)
  end.

Fixpoint emit_trans (s : st) (t : tstate) (before after : list nat) : st * tstate * nres :=
  match before with
  | [] => (s, t, NOk)
  | b :: r =>
    match emit_trans_inner s t b after with
    | (s1, t1, NOk) => emit_trans s1 t1 r after
    | other => other
    end
  end.

(* emitFinalEvents: returns the key of the handler that made it return
   Canceled (panic or timeout), if any *)
Fixpoint emit_finals (s : st) (t : tstate) (l : list nat) : st * tstate * option hkey :=
  match l with
  | [] => (s, t, None)
  | x :: r =>
    let k := if mem x (t_enters t) then HState x else HEnd x in
    let '(s1, t1, ok) := handle s t k in
    if ok then emit_finals s1 t1 r else (s1, t1, Some k)
  end.

Definition is_health (s : st) (mu : mutation) : bool :=
  match mu_type mu, mu_called mu with
  | MAdd, [x] => mem x (health s)
  | _, _ => false
  end.

(* negotiation phase of emitEvents *)
Definition negotiate (s : st) (t : tstate) : st * tstate * nres :=
  match emit_exits s t (t_exits t) with
  | (s1, t1, NOk) =>
    match emit_enters s1 t1 (t_enters t1) with
    | (s2, t2, NOk) =>
      let r3 :=
        match mu_type (t_mut t2) with
        | MRemove => (s2, t2, NOk)
        | _ => emit_selfs (S (length (t_target t2))) s2 t2
                          (map Some (t_target t2)) 0 true
        end in
      match r3 with
      | (s3, t3, NOk) => emit_trans s3 t3 (t_before t3) (t_target t3)
      | other => other
      end
    | other => other
    end
  | other => other
  end.

(* NewAutoMutation + PrependMut: the Auto states are collected in StateNames
   order (deterministic since the fix of NewAutoMutation) *)
Definition prepend_auto (s : st) : st :=
  match auto_candidates (sc s) (active s) with
  | [] => s
  | cands =>
    prepend_mut s {| mu_type := MAdd; mu_called := cands; mu_auto := true;
                     mu_check := false; mu_args := false; mu_qtick := 0 |}
  end.

Fixpoint nclock_eqb (a b : list N) : bool :=
  match a, b with
  | [], [] => true
  | x :: r, y :: s => N.eqb x y && nclock_eqb r s
  | _, _ => false
  end.

(* newTransition + emitEvents for one popped mutation.
   Returns the new state and the Result of emitEvents. *)
Definition run_tx (s : st) (mu : mutation) : st * result :=
  let hfrom := length (hlog s) in
  let t0 := new_transition s mu in
  let s := add_ev (add_ev s EvInit) EvStart in
  let canceled0 := negb (t_accepted t0) in
  (* negotiation *)
  let '(s1, t1, nr) :=
    if has_handlers s && negb canceled0 then negotiate s t0 else (s, t0, NOk) in
  match nr with
  | NCrash => (set_crashed s1, Canceled)
  | _ =>
    if hung s1 then (s1, Canceled) else
    let canceled1 := canceled0 || match nr with NCancel => true | _ => false end in
    let canceled2 :=
      if has_handlers s then
        canceled1 || (mu_auto mu && Nat.eqb (length (t_target t1)) 0)
      else canceled1 in
    (* AnyEnter *)
    let '(s2, t1, canceled3) :=
      if has_handlers s && negb canceled2 then
        let '(sx, tx, ok) := handle s1 t1 HAnyEnter in (sx, tx, negb ok)
      else (s1, t1, canceled2) in
    if hung s2 then (s2, Canceled) else
    if mu_check mu then
      (* checks: no apply *)
      let acc := t_accepted t1 && negb canceled3 in
      let rec := {| tx_type := mu_type mu; tx_called := mu_called mu; tx_auto := mu_auto mu;
                    tx_check := true; tx_qtick := mu_qtick mu;
                    tx_before := t_clock_before t1; tx_after := t_clock_before t1;
                    tx_active_before := t_before t1; tx_target := t_target t1;
                    tx_accepted := acc; tx_mach_after := clock s2;
                    tx_hfrom := hfrom; tx_hto := length (hlog s2) |} in
      (add_ev (add_tx s2 rec) EvEnd, if canceled3 then Canceled else Executed)
    else
      (* auto: re-resolve with the accepted subset *)
      let t2 :=
        if mu_auto mu then
          let called := mu_called mu in
          let rejected := diff called (t_target t1) in
          let clean := diff called rejected in
          let tg := target_states (rctx_of s2 t1) (states_to_set MAdd clean (active s2)) in
          with_exit_enter (sc s2) (topo s2) (active s2) (with_target t1 tg)
        else t1 in
      if negb canceled3 then
        let cl := set_active_clock (sc s2) (clock s2) (active s2) (mu_called mu) (t_target t2) in
        let s3 := add_ev (set_mach s2 cl (t_target t2)) EvFinals in
        (* final handlers; a fault there makes emitEvents call recoverFinalPhase *)
        let '(s4, t3, fcancel) :=
          if has_handlers s3 then
            match emit_finals s3 t2 (t_exits t2 ++ t_enters t2) with
            | (sx, tx, Some k) => (if hung sx then sx else recover_final_phase sx tx k, tx, true)
            | (sx, tx, None) => (sx, tx, false)
            end
          else (s3, t2, false) in
        if hung s4 then (s4, Canceled) else
        let changed := negb (nclock_eqb (clock s4) (t_clock_before t3)) in
        (* AnyState *)
        let '(s5, t4, fcancel2) :=
          if has_handlers s4 && negb fcancel then
            let '(sx, tx, ok) := handle s4 t3 HAnyState in (sx, tx, negb ok)
          else (s4, t3, fcancel) in
        if hung s5 then (s5, Canceled) else
        let s6 := if negb fcancel2 && changed && negb (mu_auto mu) && negb (is_health s5 mu)
                  then prepend_auto s5 else s5 in
        let res :=
          if fcancel2 then Canceled else
          match mu_type mu with
          | MRemove => if mach_not s6 (mu_called mu) then Executed else Canceled
          | _ => if mu_auto mu then
                   (if length (t_before t4) <? length (t_target t4) then Executed else Canceled)
                 else (if mach_is s6 (t_target t4) then Executed else Canceled)
          end in
        let rec := {| tx_type := mu_type mu; tx_called := mu_called mu; tx_auto := mu_auto mu;
                      tx_check := false; tx_qtick := mu_qtick mu;
                      tx_before := t_clock_before t4; tx_after := cl;
                      tx_active_before := t_before t4; tx_target := t_target t4;
                      tx_accepted := t_accepted t4 && negb fcancel2; tx_mach_after := clock s6;
                      tx_hfrom := hfrom; tx_hto := length (hlog s6) |} in
        (add_ev (add_tx s6 rec) EvEnd, res)
      else
        let rec := {| tx_type := mu_type mu; tx_called := mu_called mu; tx_auto := mu_auto mu;
                      tx_check := false; tx_qtick := mu_qtick mu;
                      tx_before := t_clock_before t2; tx_after := clock s2;
                      tx_active_before := t_before t2; tx_target := t_target t2;
                      tx_accepted := false; tx_mach_after := clock s2;
                      tx_hfrom := hfrom; tx_hto := length (hlog s2) |} in
        (add_ev (add_tx s2 rec) EvEnd, Canceled)
  end.

(* processQueue's drain loop; returns the result of the first transition *)
Fixpoint drain (fuel : nat) (s : st) (first : option result) : st * option result * bool :=
  match fuel with
  | O => (s, first, false)
  | S f =>
    if crashed s || hung s then (s, first, true)
    else
    match queue s with
    | [] => (add_ev s EvQueueEnd, first, true)
    | mu :: rest =>
      let s0 := set_queue s rest in
      let s1 := if (0 <? mu_qtick mu)%N
                then set_ticks s0 (qtick s0 + 1)%N (qpending s0 - 1)%N else s0 in
      let '(s2, r) := run_tx s1 mu in
      drain f s2 (match first with None => Some r | x => x end)
    end
  end.

(* processQueue on an idle machine *)
Definition process_queue (fuel : nat) (s : st) : st * result * bool :=
  match queue s with
  | [] => (s, Canceled, true)
  | _ =>
    let '(s1, first, ok) := drain fuel s None in
    (s1, match first with Some r => r | None => Canceled end, ok)
  end.

(* ------------------------------------------------------------ top-level API *)

Definition top_mutation (fuel : nat) (s : st) (mt : mut_type) (states : list nat) (args : bool)
  : st * result * bool :=
  let '(s1, tick) := queue_mutation s mt states args in
  if (tick =? 0)%N then (s1, Executed, true)
  else let '(s2, r, ok) := process_queue fuel s1 in (s2, r, ok).

Definition top_add fuel s states args :=
  if limit_hit s && (negb (mem (exc s) states) || is_active s (exc s)) then (s, Canceled, true)
  else top_mutation fuel s MAdd states args.

Definition top_remove fuel s states args :=
  if limit_hit s && (negb (mem (exc s) states) || negb (is_active s (exc s))) then (s, Canceled, true)
  else top_mutation fuel s MRemove states args.

Definition top_api (fuel : nat) (s : st) (c : api_call) : st * result * bool :=
  match ac_kind c with
  | KAdd => top_add fuel s (ac_states c) (ac_args c)
  | KRemove => top_remove fuel s (ac_states c) (ac_args c)
  | KSet => if limit_hit s then (s, Canceled, true)
            else top_mutation fuel s MSet (ac_states c) (ac_args c)
  | KToggle => if mach_is s (ac_states c) then top_remove fuel s (ac_states c) (ac_args c)
               else top_add fuel s (ac_states c) (ac_args c)
  | KAddErr => if limit_hit s then (s, Canceled, true)
               else top_add fuel (set_fault_flags s (loop_dead s) (hung s) 1) [exc s; exc s] true
  | KCanAdd => process_queue fuel (prepend_mut s (check_mut MAdd (ac_states c) (ac_args c)))
  | KCanRemove => process_queue fuel (prepend_mut s (check_mut MRemove (ac_states c) false))
  end.

(* what the caller observes after each top-level call *)
Record callobs := {
  co_result : result;
  co_time : list N;       (* Machine.Time(nil) after the call *)
  co_active : list nat;   (* Machine.ActiveStates(nil) after the call *)
  co_qtick : N;
  co_ntx : nat;           (* number of transitions traced so far *)
  co_err : N              (* Machine.Err(): 0 nil, 1 AddErr error, 2 recovered panic *)
}.

Fixpoint run_calls_top (fuel : nat) (s : st) (cs : list api_call) (acc : list callobs)
  : st * list callobs * bool :=
  match cs with
  | [] => (s, rev acc, true)
  | c :: r =>
    if crashed s || hung s then (s, rev acc, true)
    else
    let '(s1, res, ok) := top_api fuel s c in
    let o := {| co_result := res; co_time := clock s1; co_active := active s1;
                co_qtick := qtick s1; co_ntx := length (txs s1); co_err := err_code s1 |} in
    if crashed s1 || hung s1 then (s1, rev acc, ok)    (* the panicking / blocked call returns nothing *)
    else if ok then run_calls_top fuel s1 r (o :: acc) else (s1, rev (o :: acc), false)
  end.

Record trace := {
  tr_calls : list callobs;
  tr_txs : list txrec;
  tr_evs : list tev;
  tr_hlog : list hlentry;
  tr_crashed : bool;
  tr_hung : bool;
  tr_fuel_ok : bool
}.

Definition init_st (sch : schema) (tp : list nat) (hl : list nat) (ex : nat)
  (bs : list (list hkey)) (ql : N) (acts : list haction) : st :=
  {| sc := sch; topo := tp; health := hl; exc := ex; bindings := bs; qlimit := ql;
     clock := map (fun _ => 0%N) sch; active := []; queue := []; qtick := 1; qpending := 0;
     actions := acts; hlog := []; txs := []; evs := [];
     crashed := false; loop_dead := false; hung := false; err_code := 0 |}.

Definition run (fuel : nat) (s0 : st) (cs : list api_call) : trace :=
  let '(s1, obs, ok) := run_calls_top fuel s0 cs [] in
  {| tr_calls := obs; tr_txs := rev (txs s1); tr_evs := rev (evs s1);
     tr_hlog := rev (hlog s1); tr_crashed := crashed s1; tr_hung := hung s1; tr_fuel_ok := ok |}.
