(* Model of the am-dbg record store, its derived index and its navigation (C16).

   Mirrors, function by function:
     dbg.Tracer.TransitionEnd / MutationQueued (message construction)  -> msg (a record, built by the harness
                                                                          from what the real tracer sent)
     helpers.GetTransitionStates                                        -> get_transition_states
     Debugger.hParseMsg                                                 -> parse_one / parse_go / parse_all
     sort.Search, slices.BinarySearchFunc                               -> go_search / sort_search
     server.Client.TxAtQueueTick / TxAtHTime / TxAtMachTime / TxIndex   -> tx_at_queue_tick / tx_at_htime /
                                                                          tx_at_mach_time / tx_index
     server.Client.HadErrSinceTx / FilterIndexByCursor1 / TxExecutedBy  -> had_err_since / filter_index_by_cursor1 /
                                                                          tx_executed_by
     Debugger.hFilterTx / hFilterClientTxs / ClientMsgState (append)    -> filter_tx / filter_client_txs / filter_live
     Debugger.hIsTxSkipped / hFilterTxCursor1                           -> is_skipped / filter_cursor
     FwdEnter+FwdState / BackEnter+BackState / ScrollToTxEnter+State /
       ToolToggledState                                                 -> nav_step

   Integers: ticks, queue ticks, sums are N (uint64 wrap-around is NOT modelled:
   all sums are assumed < 2^64); Go ints that can be negative (-1 results,
   cursors, HadErrSinceTx arguments) are Z. Slices that went through gob
   lose the nil / empty distinction: an empty clock list is the nil slice.
   Proof-free on purpose. *)

From Coq Require Import List NArith ZArith Bool Arith.
Import ListNotations.

(* ------------------------------------------------------------------ records *)

(* dbg.DbgMsgTx, canonical: transition ids are numbered by first occurrence,
   human time is an offset, steps are reduced to their (from, to) state
   indexes (None = "" / -1), log entries / args / stack traces are dropped. *)
Record msg := mkMsg {
  m_id : nat;
  m_clocks : list N;          (* Clocks: machine time after the transition *)
  m_qtick : N;                (* QueueTick *)
  m_mqtick : N;               (* MutQueueTick (queued only) *)
  m_token : N;                (* MutQueueToken *)
  m_htime : N;                (* Time, as set by the receiving server *)
  m_accepted : bool;
  m_check : bool;
  m_auto : bool;
  m_queued : bool;
  m_called : list nat;        (* CalledStatesIdxs *)
  m_steps : list (option Z * option Z)  (* Some (-1): a name outside the index ("Any") *)
}.

Definition dmsg : msg :=
  mkMsg 0 [] 0 0 0 0 false false false false [] [].

(* types.MsgTxParsed (the index part) *)
Record parsed := mkParsed {
  p_sum : N;                  (* TimeSum *)
  p_diff : N;                 (* TimeDiff *)
  p_added : list nat;         (* StatesAdded *)
  p_removed : list nat;       (* StatesRemoved *)
  p_touched : list Z          (* StatesTouched; -1 for a name outside the index *)
}.

Definition dparsed : parsed := mkParsed 0 0 [] [] [].

(* ------------------------------------------------------------------ helpers *)

Definition sumN (l : list N) : N := fold_right N.add 0%N l.

(* Time.Tick: out of bound falls back to 0 *)
Definition tick (t : list N) (i : nat) : N := nth i t 0%N.

(* am.IsActiveTick *)
Definition active_tick (v : N) : bool := N.odd v.

Fixpoint mem_nat (x : nat) (l : list nat) : bool :=
  match l with
  | [] => false
  | y :: r => Nat.eqb x y || mem_nat x r
  end.

Fixpoint mem_z (x : Z) (l : list Z) : bool :=
  match l with
  | [] => false
  | y :: r => Z.eqb x y || mem_z x r
  end.

(* utils.SlicesUniq: keeps first occurrences, in order *)
Fixpoint uniq_acc (acc l : list Z) : list Z :=
  match l with
  | [] => rev acc
  | x :: r => if mem_z x acc then uniq_acc acc r else uniq_acc (x :: acc) r
  end.
Definition uniq (l : list Z) : list Z := uniq_acc [] l.

(* slices.Index over []int, with a Go int needle *)
Fixpoint index_of_from (k : nat) (x : Z) (l : list nat) : Z :=
  match l with
  | [] => (-1)%Z
  | y :: r => if Z.eqb x (Z.of_nat y) then Z.of_nat k else index_of_from (S k) x r
  end.
Definition index_of (x : Z) (l : list nat) : Z := index_of_from 0 x l.

(* ------------------------------------------------------------------ GetTransitionStates *)

(* `before = None` is the nil TimeBefore of the first record (and of a
   record whose predecessor has no clocks at all). *)
Definition state_class (before : option (list N)) (after : list N) (i : nat) : N :=
  let b := match before with Some t => active_tick (tick t i) | None => false end in
  let a := active_tick (tick after i) in
  if b && negb a then 2                      (* removed *)
  else if negb b && a then 1                 (* added *)
  else match before with
       | Some t => if N.eqb (tick t i) (tick after i) then 0 else 1   (* multi: treated as added *)
       | None => 0
       end%N.

Definition step_states (s : option Z * option Z) : list Z :=
  (match fst s with Some x => [x] | None => [] end) ++
  (match snd s with Some x => [x] | None => [] end).

(* returns (added, removed, touched) as state indexes; n = len(index) *)
Definition get_transition_states (n : nat) (before : option (list N)) (after : list N)
    (steps : list (option Z * option Z)) : list nat * list nat * list Z :=
  let idxs := seq 0 n in
  (filter (fun i => N.eqb (state_class before after i) 1) idxs,
   filter (fun i => N.eqb (state_class before after i) 2) idxs,
   uniq (flat_map step_states steps)).

(* ------------------------------------------------------------------ hParseMsg *)

(* DbgMsgTx.Is1 for each error state (Exception and Err* names): errst are
   their indexes in the client's state index *)
Definition is_err (errst : list nat) (m : msg) : bool :=
  existsb (fun i => active_tick (tick (m_clocks m) i)) errst.

Definition nil_time (t : list N) : option (list N) :=
  match t with [] => None | _ => Some t end.

(* one call of hParseMsg; prev = the previous message and its parsed record
   (None for idx = 0). Returns the parsed record and whether idx is prepended
   to Client.Errors. *)
Definition parse_one (n : nat) (errst : list nat) (prev : option (msg * parsed)) (cur : msg)
    : parsed * bool :=
  let sum := sumN (m_clocks cur) in
  let before_t := match prev with Some (pm, _) => m_clocks pm | None => [] end in
  if N.ltb sum (sumN before_t) then
    (* "time after < time before": a bare record, no error-index update *)
    (mkParsed sum 0 [] [] [], false)
  else
    let prevsum := match prev with Some (_, pp) => p_sum pp | None => 0%N end in
    let '(a, r, t) := get_transition_states n (nil_time before_t) (m_clocks cur) (m_steps cur) in
    (mkParsed sum (sum - prevsum) a r t, is_err errst cur).

(* the loop of hImportData / successive ClientMsgState calls *)
Fixpoint parse_go (n : nat) (errst : list nat) (idx : nat) (prev : option (msg * parsed))
    (errs : list nat) (msgs : list msg) : list parsed * list nat :=
  match msgs with
  | [] => ([], errs)
  | m :: r =>
    let pe := parse_one n errst prev m in
    let errs' := if snd pe then idx :: errs else errs in
    let rest := parse_go n errst (S idx) (Some (m, fst pe)) errs' r in
    (fst pe :: fst rest, snd rest)
  end.

(* (MsgTxsParsed, Errors, MTimeSum) *)
Definition parse_all (n : nat) (errst : list nat) (msgs : list msg) : list parsed * list nat * N :=
  let pe := parse_go n errst 0 None [] msgs in
  (fst pe, snd pe, sumN (m_clocks (last msgs dmsg))).

(* ------------------------------------------------------------------ binary searches *)

(* sort.Search(n, f): i, j := 0, n; for i < j { h := (i+j)/2; if !f(h) {i = h+1} else {j = h} }.
   Also the loop of slices.BinarySearchFunc with f h := cmp(x[h], target) >= 0. *)
Fixpoint go_search (fuel : nat) (f : nat -> bool) (i j : nat) : nat :=
  match fuel with
  | O => i
  | S fu =>
    if Nat.ltb i j then
      let h := Nat.div2 (i + j) in
      if f h then go_search fu f i h else go_search fu f (S h) j
    else i
  end.

Definition sort_search (n : nat) (f : nat -> bool) : nat := go_search (S n) f 0 n.

(* Client.TxAtQueueTick *)
Definition tx_at_queue_tick (msgs : list msg) (q : N) : Z :=
  let l := length msgs in
  if Nat.eqb l 0 then (-1)%Z else
  let i := sort_search l (fun i => N.leb q (m_qtick (nth i msgs dmsg))) in
  Z.of_nat (if Nat.eqb i l then l - 1 else i).

(* Client.TxAtHTime (the "pick the closer one" branch returns i both ways) *)
Definition tx_at_htime (msgs : list msg) (t : N) : Z :=
  let l := length msgs in
  if Nat.eqb l 0 then (-1)%Z else
  let i := sort_search l (fun i => N.leb t (m_htime (nth i msgs dmsg))) in
  Z.of_nat (if Nat.eqb i l then l - 1 else i).

(* Client.TxAtMachTime: slices.BinarySearchFunc over MsgTxsParsed by TimeSum;
   0 when not found *)
Definition tx_at_mach_time (ps : list parsed) (sum : N) : Z :=
  let n := length ps in
  let i := sort_search n (fun h => negb (N.ltb (p_sum (nth h ps dparsed)) sum)) in
  if Nat.ltb i n && N.eqb (p_sum (nth i ps dparsed)) sum then Z.of_nat i else 0%Z.

(* Client.TxIndex (the cache only memoises) *)
Fixpoint tx_index_from (k : nat) (msgs : list msg) (id : nat) : Z :=
  match msgs with
  | [] => (-1)%Z
  | m :: r => if Nat.eqb (m_id m) id then Z.of_nat k else tx_index_from (S k) r id
  end.
Definition tx_index (msgs : list msg) (id : nat) : Z := tx_index_from 0 msgs id.

(* Client.HadErrSinceTx *)
Definition had_err_since (errors : list nat) (tx distance : Z) : bool :=
  if existsb (fun e => Z.eqb (Z.of_nat e) tx) errors then true else
  let n := length errors in
  let idx := sort_search n (fun i => Z.ltb (Z.of_nat (nth i errors 0)) tx) in
  if Nat.leb n idx then false
  else Z.ltb (tx - Z.of_nat (nth idx errors 0)) distance.

(* Client.FilterIndexByCursor1 *)
Definition filter_index_by_cursor1 (filtered : list nat) (cursor1 : Z) : Z :=
  if Z.eqb cursor1 0 then 0%Z else index_of (cursor1 - 1) filtered.

(* ------------------------------------------------------------------ filters *)

(* types.Filters, the part hFilterTx reads (SkipOutGroup is only modelled
   for an empty SelectedGroup, where it does nothing; SkipRpcMach is not a
   transition filter) *)
Record filters := mkFilters {
  f_canceled : bool;          (* SkipCanceledTx *)
  f_auto : bool;              (* SkipAutoTx *)
  f_autocanceled : bool;      (* SkipAutoCanceledTx *)
  f_empty : bool;             (* SkipEmptyTx *)
  f_health : bool;            (* SkipHealthTx *)
  f_queued : bool;            (* SkipQueuedTx *)
  f_checks : bool             (* SkipChecks *)
}.

(* Client.TxExecutedBy *)
Definition executes (tx chk : msg) : bool :=
  negb (m_queued chk) &&
  (N.eqb (m_qtick chk) (m_mqtick tx) ||
   (N.ltb 0 (m_token chk) && N.eqb (m_token chk) (m_token tx))).

Definition tx_executed_by (msgs : list msg) (idx : nat) : option msg :=
  let tx := nth idx msgs dmsg in
  if negb (m_queued tx) then None
  else find (executes tx) (skipn (S idx) msgs).

(* Debugger.hFilterTx; health = indexes of Healthcheck / Heartbeat *)
Definition filter_tx (f : filters) (health : list nat) (msgs : list msg) (ps : list parsed)
    (idx : nat) : bool :=
  let tx := nth idx msgs dmsg in
  let p := nth idx ps dparsed in
  if (if f_auto f && m_auto tx then true
      else if f_autocanceled f && m_auto tx && negb (m_accepted tx) then true
      else if f_autocanceled f && m_auto tx && m_queued tx then
        match tx_executed_by msgs idx with
        | Some ex => negb (m_accepted ex)
        | None => false
        end
      else false) then false
  else if f_canceled f && negb (m_accepted tx) then false
  else if f_queued f && m_queued tx then false
  else if f_checks f && m_check tx then false
  else if f_empty f && N.eqb (p_diff p) 0 && negb (m_queued tx) && m_accepted tx then false
  else if f_health f &&
          match m_called tx with
          | [c] => mem_nat c health
          | _ => false
          end then false
  else true.

(* Debugger.hFilterClientTxs (when filters are active): a full recomputation *)
Definition filter_client_txs (f : filters) (health : list nat) (msgs : list msg) (ps : list parsed)
    : list nat :=
  filter (filter_tx f health msgs ps) (seq 0 (length msgs)).

(* ClientMsgState: every arriving message is filtered once, against the
   messages received so far, and appended *)
Definition filter_live (f : filters) (health : list nat) (msgs : list msg) (ps : list parsed)
    : list nat :=
  filter (fun i => filter_tx f health (firstn (S i) msgs) ps i) (seq 0 (length msgs)).

(* ------------------------------------------------------------------ navigation *)

(* Debugger.hIsTxSkipped; active = filtersActive() *)
Definition is_skipped (active : bool) (filtered : list nat) (idx : Z) : bool :=
  active && Z.eqb (index_of idx filtered) (-1).

(* the loop of Debugger.hFilterTxCursor1 *)
Fixpoint filter_cursor_go (fuel : nat) (filtered : list nat) (len cur new : Z) (back : bool) : Z :=
  match fuel with
  | O => new
  | S fu =>
    if Z.ltb new 1 then 0%Z
    else if Z.ltb len new then
      (if negb (is_skipped true filtered (cur - 1)) then cur else 0%Z)
    else if is_skipped true filtered (new - 1) then
      filter_cursor_go fu filtered len cur (if back then new - 1 else new + 1)%Z back
    else new
  end.

(* Debugger.hFilterTxCursor1(c, newCursor1, back); len = len(c.MsgTxs), cur = c.CursorTx1 *)
Definition filter_cursor (active : bool) (filtered : list nat) (len : nat) (cur new : Z)
    (back : bool) : Z :=
  if negb active then new
  else filter_cursor_go (len + 2) filtered (Z.of_nat len) cur new back.

Inductive nav_cmd :=
| NFwd (amount : Z)           (* UserFwd / Fwd with A.Amount *)
| NBack (amount : Z)          (* UserBack / Back with A.Amount *)
| NScroll (cursor1 : Z)       (* ScrollToTx with A.CursorTx1 *)
| NScrollId (id : nat)        (* ScrollToTx with A.TxId *)
| NRefilter.                  (* ToggleTool of a tx filter -> ToolToggled{FilterTxs} *)

(* The flags hFilterClientTxs sees inside ToolToggledState. ToggleToolState
   queues [toggle the filter state; ToolToggled]; when FilterCanceledTx or
   FilterQueuedTx is switched OFF, its End handler queues the removal of
   FilterEmptyTx BEHIND ToolToggled: the list is recomputed with the old
   FilterEmptyTx. fprev / f = the flags before / after the whole command. *)
Definition refilter_flags (fprev f : filters) : filters :=
  if (f_canceled fprev && negb (f_canceled f)) || (f_queued fprev && negb (f_queued f))
  then mkFilters (f_canceled f) (f_auto f) (f_autocanceled f) (f_empty fprev) (f_health f)
                 (f_queued f) (f_checks f)
  else f.

(* states.DebuggerGroups.Filters without FilterOutGroup: FilterChecks is NOT
   a member *)
Definition group_any (f : filters) : bool :=
  f_auto f || f_canceled f || f_empty f || f_health f || f_queued f || f_autocanceled f.

(* what one command does to (MsgTxsFiltered, CursorTx1). For NRefilter the
   new filter flags and filtersActive() are inputs (they are decided by the
   debugger's own state machine); TailMode is off. *)
Definition nav_step (fprev f : filters) (active : bool) (health : list nat) (msgs : list msg)
    (ps : list parsed) (filtered : list nat) (cur : Z) (c : nav_cmd) : list nat * Z :=
  let len := length msgs in
  let lenz := Z.of_nat len in
  match c with
  | NFwd amount =>
    let a := Z.max amount 1 in
    if Z.leb (cur + a) lenz
    then (filtered, filter_cursor active filtered len cur (cur + a) false)
    else (filtered, cur)
  | NBack amount =>
    let a := Z.max amount 1 in
    if Z.leb 0 (cur - a)
    then (filtered, filter_cursor active filtered len cur (cur - a) true)
    else (filtered, cur)
  | NScroll c1 =>
    if Z.ltb 0 c1 && Z.leb c1 lenz
    then (filtered, filter_cursor active filtered len cur c1 false)
    else (filtered, cur)
  | NScrollId id =>
    let i := tx_index msgs id in
    if Z.ltb (-1) i
    then (filtered, filter_cursor active filtered len cur (i + 1) false)
    else (filtered, cur)
  | NRefilter =>
    (* filtersActive() inside ToolToggledState: the observed final value, or
       a group filter that is still on at that moment *)
    let f' := refilter_flags fprev f in
    let active' := active || group_any f' in
    let filtered' := if active' then filter_client_txs f' health msgs ps else filtered in
    (filtered', filter_cursor active' filtered' len cur cur true)
  end.

(* ------------------------------------------------------------------ several clients *)

(* Everything below was added for the several-clients part of C16: one
   debugger holds a store, a filter view and a cursor PER CLIENT, one set of
   filter flags and one "last scrolled" time for all of them.

     ClientMsgState (one message, TailMode off)          -> arrive
     ToggleTool of a tx filter -> ToolToggledState        -> dbg_step (EToggle f)
     SelectingClientEnter + SelectingClientState          -> dbg_step (ESelect who)
     hScrollToTime / the "scroll to the last one" branch  -> select_cursor
     hSetCursor1 (the lastScrolledTxTime bookkeeping)     -> scrolled_time *)

(* hCurrentTx() != nil *)
Definition on_record (len : nat) (c : Z) : bool := Z.ltb 0 c && Z.leb c (Z.of_nat len).

(* hSetCursor1: `tx := hCurrentTx()` is read BEFORE the cursor moves;
   lastScrolledTxTime is zeroed and set to the time of the new current record
   only when there was a current record before. 0 = the zero time (receive
   times are >= 1). *)
Definition scrolled_time (msgs : list msg) (before after : Z) : N :=
  if on_record (length msgs) before && on_record (length msgs) after
  then m_htime (nth (Z.to_nat (after - 1)) msgs dmsg)
  else 0%N.

(* where a command asks hSetCursor1 to go: None when its Enter handler
   rejects it (FwdEnter / BackEnter / ScrollToTxEnter). The flag is
   A.FilterBack. ToolToggledState re-applies the current cursor. *)
Definition nav_target (msgs : list msg) (cur : Z) (c : nav_cmd) : option (Z * bool) :=
  let lenz := Z.of_nat (length msgs) in
  match c with
  | NFwd amount =>
    let a := Z.max amount 1 in
    if Z.leb (cur + a) lenz then Some (cur + a, false)%Z else None
  | NBack amount =>
    let a := Z.max amount 1 in
    if Z.leb 0 (cur - a) then Some (cur - a, true)%Z else None
  | NScroll c1 => if Z.ltb 0 c1 && Z.leb c1 lenz then Some (c1, false) else None
  | NScrollId id =>
    let i := tx_index msgs id in
    if Z.ltb (-1) i then Some (i + 1, false)%Z else None
  | NRefilter => Some (cur, true)
  end.

(* the cursor SelectingClientState leaves on the newly selected client
   (TailMode off). filtered = its view after hFilterClientTxs, cur = the
   cursor it had when it was selected last (0: never), last =
   lastScrolledTxTime. hScrollToTime passes the INDEX TxAtHTime returns as a
   1-based cursor (so the record before the one found is shown) through
   hFilterTxCursor1 and then through hSetCursor1, which filters again; an
   empty store scrolls "to the last one": cursor 0. *)
Definition select_cursor (active : bool) (filtered : list nat) (msgs : list msg) (cur : Z)
    (last : N) : Z :=
  let len := length msgs in
  let i := tx_at_htime msgs last in
  if Z.eqb i (-1) then filter_cursor active filtered len cur (Z.of_nat len) true
  else
    let c1 := filter_cursor active filtered len cur i true in
    filter_cursor active filtered len cur c1 true.

Record client := mkClient {
  c_msgs : list msg;          (* MsgTxs *)
  c_parsed : list parsed;     (* MsgTxsParsed *)
  c_filtered : list nat;      (* MsgTxsFiltered *)
  c_cursor : Z                (* CursorTx1 *)
}.

Definition client0 : client := mkClient [] [] [] 0%Z.

(* two connected clients; d_sel = false: the first one is Debugger.C *)
Record dbg := mkDbg {
  d_sel : bool;
  d_a : client;
  d_b : client;
  d_flags : filters;          (* the Filter* states *)
  d_last : N                  (* lastScrolledTxTime *)
}.

Definition dbg_init (f : filters) : dbg := mkDbg false client0 client0 f 0%N.

Definition get_client (d : dbg) (who : bool) : client := if who then d_b d else d_a d.
Definition sel_client (d : dbg) : client := get_client d (d_sel d).

Definition set_client (d : dbg) (who : bool) (c : client) : dbg :=
  if who then mkDbg (d_sel d) (d_a d) c (d_flags d) (d_last d)
  else mkDbg (d_sel d) c (d_b d) (d_flags d) (d_last d).

(* ClientMsgState, one message of one client, TailMode off: appended, parsed
   (p = the record hParseMsg derives; a parameter here, so that what is
   proved holds whatever it derives), filtered ONCE with the flags of that
   moment against the messages received so far. Whoever is selected. *)
Definition arrive (f : filters) (health : list nat) (c : client) (m : msg) (p : parsed) : client :=
  let msgs := c_msgs c ++ [m] in
  let ps := c_parsed c ++ [p] in
  let idx := length (c_msgs c) in
  mkClient msgs ps
           (if filter_tx f health msgs ps idx then c_filtered c ++ [idx] else c_filtered c)
           (c_cursor c).

Inductive event :=
| EArrive (who : bool) (m : msg) (p : parsed)   (* ClientMsg *)
| EToggle (f : filters)       (* ToggleTool of a tx filter; f = the flags after the command (decided by
                                 the debugger's own state machine) *)
| ESelect (who : bool)        (* SelectingClient *)
| ENav (c : nav_cmd).         (* UserFwd / UserBack / Fwd / Back / ScrollToTx on the selected client *)

(* does the command reach hSetCursor1? *)
Definition sets_cursor (d : dbg) (e : event) : bool :=
  match e with
  | EArrive _ _ _ => false
  | EToggle _ => true
  | ESelect who => negb (Bool.eqb who (d_sel d))
  | ENav c => match nav_target (c_msgs (sel_client d)) (c_cursor (sel_client d)) c with
              | Some _ => true
              | None => false
              end
  end.

(* a command on the selected client: nav_step, then the bookkeeping of
   hSetCursor1 *)
Definition on_selected (health : list nat) (d : dbg) (f' : filters) (c : nav_cmd) (moved : bool) : dbg :=
  let cl := sel_client d in
  let '(fl, cu) := nav_step (d_flags d) f' (group_any f') health (c_msgs cl) (c_parsed cl)
                            (c_filtered cl) (c_cursor cl) c in
  let cl' := mkClient (c_msgs cl) (c_parsed cl) fl cu in
  let last' := if moved then scrolled_time (c_msgs cl) (c_cursor cl) cu else d_last d in
  let d' := set_client d (d_sel d) cl' in
  mkDbg (d_sel d') (d_a d') (d_b d') f' last'.

Definition dbg_step (health : list nat) (d : dbg) (e : event) : dbg :=
  match e with
  | EArrive who m p => set_client d who (arrive (d_flags d) health (get_client d who) m p)
  | EToggle f' => on_selected health d f' NRefilter true
  | ENav c => on_selected health d (d_flags d) c (sets_cursor d e)
  | ESelect who =>
    (* SelectingClientEnter: the same client is rejected *)
    if Bool.eqb who (d_sel d) then d else
    let cl := get_client d who in
    let f := d_flags d in
    let active := group_any f in
    (* hFilterClientTxs: a full recomputation, unless no group filter is on *)
    let fl := if active then filter_client_txs f health (c_msgs cl) (c_parsed cl) else c_filtered cl in
    let cu := select_cursor active fl (c_msgs cl) (c_cursor cl) (d_last d) in
    let cl' := mkClient (c_msgs cl) (c_parsed cl) fl cu in
    let d' := set_client d who cl' in
    mkDbg who (d_a d') (d_b d') f (scrolled_time (c_msgs cl) (c_cursor cl) cu)
  end.

Definition run_events (health : list nat) (d : dbg) (evs : list event) : dbg :=
  fold_left (dbg_step health) evs d.

(* what a history means for one client and for the flags *)
Definition arrived (who : bool) (evs : list event) : list (msg * parsed) :=
  flat_map (fun e => match e with
                     | EArrive w m p => if Bool.eqb w who then [(m, p)] else []
                     | _ => []
                     end) evs.

Definition flags_after (f0 : filters) (evs : list event) : filters :=
  fold_left (fun f e => match e with EToggle f' => f' | _ => f end) evs f0.

(* a toggle that switches FilterCanceledTx or FilterQueuedTx OFF is
   re-filtered with the old FilterEmptyTx (refilter_flags) *)
Definition plain_toggle (fprev f : filters) : bool :=
  negb (f_canceled fprev && negb (f_canceled f)) && negb (f_queued fprev && negb (f_queued f)).

(* histories on which the view of the selected client is a function of its
   records and the flags alone: no message arrives while SkipAutoCanceledTx
   is on (filter_live_sound_refuted), every toggle is a plain one *)
Fixpoint tame_events (f : filters) (evs : list event) : bool :=
  match evs with
  | [] => true
  | EArrive _ _ _ :: r => negb (f_autocanceled f) && tame_events f r
  | EToggle f' :: r => plain_toggle f f' && tame_events f' r
  | _ :: r => tame_events f r
  end.

(* ------------------------------------------------------------------ TxIndex with its memo *)

(* Client.TxIndex keeps a memo (txCache: id -> index) of the lookups that
   FOUND a record; the store only grows (ClearCache / the memory GC are not
   modelled). Newest entry first.

     Client.TxIndex                       -> tx_index_memo
     ClientMsgState (append) / any lookup -> store_step *)
Definition tx_cache := list (nat * Z).

Fixpoint cache_get (cache : tx_cache) (id : nat) : option Z :=
  match cache with
  | [] => None
  | (k, i) :: r => if Nat.eqb k id then Some i else cache_get r id
  end.

(* (answer, memo afterwards): a hit of the memo is returned as it is; a scan
   that finds the record is remembered, one that finds nothing is not *)
Definition tx_index_memo (cache : tx_cache) (msgs : list msg) (id : nat) : Z * tx_cache :=
  match cache_get cache id with
  | Some i => (i, cache)
  | None =>
    let i := tx_index msgs id in
    if Z.ltb (-1) i then (i, (id, i) :: cache) else (i, cache)
  end.

(* NOT the code: the same with misses remembered too (see
   tx_index_memo_of_misses_refuted) *)
Definition tx_index_memo_all (cache : tx_cache) (msgs : list msg) (id : nat) : Z * tx_cache :=
  match cache_get cache id with
  | Some i => (i, cache)
  | None => let i := tx_index msgs id in (i, (id, i) :: cache)
  end.

Inductive store_event :=
| SArrive (m : msg)           (* a message is appended to MsgTxs *)
| SLookup (id : nat).         (* TxIndex(id): ScrollToTx by id, address jumps, log links *)

Definition store_step (lookup : tx_cache -> list msg -> nat -> Z * tx_cache)
    (s : list msg * tx_cache) (e : store_event) : list msg * tx_cache :=
  match e with
  | SArrive m => (fst s ++ [m], snd s)
  | SLookup id => (fst s, snd (lookup (snd s) (fst s) id))
  end.

Definition store_run (lookup : tx_cache -> list msg -> nat -> Z * tx_cache)
    (s : list msg * tx_cache) (evs : list store_event) : list msg * tx_cache :=
  fold_left (store_step lookup) evs s.

Definition store_arrived (evs : list store_event) : list msg :=
  flat_map (fun e => match e with SArrive m => [m] | SLookup _ => [] end) evs.
