(* Parsed state schema: states are nat indexes in Machine.StateNames() order
   (as fixed by VerifyStates). The model takes the *parsed* schema (what
   Schema.Parse produced), read back from the implementation. Proof-free. *)

From Coq Require Import List Bool Arith.
From AMV Require Import Base.ListSet.
Import ListNotations.

Record sdef := {
  s_auto : bool;
  s_multi : bool;
  s_require : list nat;
  s_add : list nat;
  s_remove : list nat;
  s_after : list nat
}.

Definition empty_sdef : sdef :=
  {| s_auto := false; s_multi := false; s_require := []; s_add := [];
     s_remove := []; s_after := [] |}.

Definition schema := list sdef.

Definition sget (sc : schema) (i : nat) : sdef := nth i sc empty_sdef.

Definition all_states (sc : schema) : list nat := seq 0 (length sc).

(* every reference points at a defined state *)
Definition refs_ok (sc : schema) : bool :=
  forallb (fun d =>
    forallb (fun i => i <? length sc) (s_require d ++ s_add d ++ s_remove d ++ s_after d)) sc.

Inductive mut_type := MAdd | MRemove | MSet.

Definition mut_type_eqb (a b : mut_type) : bool :=
  match a, b with
  | MAdd, MAdd | MRemove, MRemove | MSet, MSet => true
  | _, _ => false
  end.
