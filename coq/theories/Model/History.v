(* Model of pkg/history (in-process Memory backend) and of Machine.Export /
   Machine.Import, mirroring the Go code function by function.  Proof-free.

     time_*            pkg/machine/mach_misc.go  Time.Sum / Filter / DiffSince /
                                                 Before / After
     new_memory        history.go  NewMemory     (config normalisation)
     matches           history.go  tracer.TransitionEnd, lines 337-381
     mk_record         history.go  tracer.TransitionEnd, lines 387-433
     track             history.go  tracer.TransitionEnd, lines 435-446
     validate          history.go  BaseMemory.ValidateQuery
     rec_step/fl_loop  history.go  Memory.FindLatest
     between           history.go  BaseMemory.{Activated,Active,Deactivated,
                                   Inactive}Between
     export / import   machine.go  Machine.Export / Machine.Import

   States are machine indexes (position in Machine.StateNames()); a name the
   machine does not know is an index >= the number of states.  Ticks are N,
   arithmetic wraps at 2^64 as uint64 does.  Go panics are explicit values
   (FlPanic, IPanic).  Wall-clock stamps (HTime) are opaque, ordered N values
   supplied with the transition (0 = the zero time.Time). *)

From Coq Require Import List NArith ZArith Bool Arith.
From AMV Require Import Base.ListSet.
Import ListNotations.

(* ------------------------------------------------------------ uint64 *)

Definition w64 : N := 18446744073709551616%N.
Definition add64 (a b : N) : N := N.modulo (a + b) w64.
Definition sub64 (a b : N) : N := N.modulo (a + w64 - N.modulo b w64) w64.

(* ------------------------------------------------------------ am.Time *)

Definition tick (t : list N) (i : nat) : N := nth i t 0%N.

(* Time.Sum(nil) *)
Definition time_sum (t : list N) : N := fold_left add64 t 0%N.

(* Time.Filter(idxs): an index past the end yields 0 *)
Definition time_filter (t : list N) (idxs : list nat) : list N := map (tick t) idxs.

(* Time.Sum(idxs), idxs non-nil: an index past the end is skipped *)
Definition time_sum_idx (t : list N) (idxs : list nat) : N := time_sum (time_filter t idxs).

Fixpoint zip_sub (a b : list N) : list N :=
  match a, b with
  | x :: r, y :: s => sub64 x y :: zip_sub r s
  | _, _ => []
  end.

(* Time.DiffSince(before): all zero when the lengths differ *)
Definition diff_since (t before : list N) : list N :=
  if Nat.eqb (length t) (length before) then zip_sub t before
  else repeat 0%N (length t).

(* am.IsActiveTick *)
Definition active_tick (t : N) : bool := N.odd t.

(* Time.Before(orEqual, time2): true unless some tick of the common prefix is
   after (or equal to, when !orEqual) its counterpart *)
Fixpoint time_before (or_equal : bool) (t t2 : list N) : bool :=
  match t, t2 with
  | t1 :: r, u :: s =>
    if (u <? t1)%N || ((t1 =? u)%N && negb or_equal) then false
    else time_before or_equal r s
  | _, _ => true
  end.

(* Time.After(orEqual, time2) *)
Fixpoint time_after (or_equal : bool) (t t2 : list N) : bool :=
  match t, t2 with
  | t1 :: r, u :: s =>
    if (t1 <? u)%N || ((t1 =? u)%N && negb or_equal) then false
    else time_after or_equal r s
  | _, _ => true
  end.

(* ------------------------------------------------------------ transitions *)

(* a transition as a tracer sees it in TransitionEnd *)
Record htx := {
  x_type : N;               (* Mutation.Type: 0 add, 1 remove, 2 set *)
  x_called : list nat;      (* Transition.CalledStates() *)
  x_auto : bool;
  x_check : bool;
  x_accepted : bool;        (* IsAccepted at TransitionEnd *)
  x_before : list N;        (* TimeBefore *)
  x_after : list N;         (* TimeAfter *)
  x_mach_after : list N;    (* Machine.Time(nil) inside TransitionEnd *)
  x_qtick : N;              (* Mutation.QueueTick *)
  x_mach_qtick : N;         (* Machine.QueueTick() inside TransitionEnd *)
  x_mtick : N;              (* Machine.MachineTick() *)
  x_htime : N               (* time.Now() of the history tracer (opaque) *)
}.

(* ------------------------------------------------------------ config *)

(* BaseConfig as passed to NewMemory *)
Record rawcfg := {
  w_tracked : list nat;
  w_called : list nat;
  w_called_excl : bool;
  w_changed : list nat;
  w_changed_excl : bool;
  w_rejected : bool;
  w_store_tx : bool;
  w_max : Z
}.

(* the config NewMemory installs *)
Record hcfg := {
  c_called : list nat;
  c_called_excl : bool;
  c_changed : list nat;
  c_changed_excl : bool;
  c_rejected : bool;
  c_store_tx : bool;
  c_tracked : list nat;     (* Cfg.TrackedStates = cacheTrackedIdxs (as machine indexes) *)
  c_max : nat               (* Cfg.MaxRecords, >= 1 *)
}.

Fixpoint has_dup (l : list nat) : bool :=
  match l with
  | [] => false
  | x :: r => mem x r || has_dup r
  end.

(* NewMemory, lines 764-780.  Machine.ParseStates returns
     - when a KNOWN name occurs twice: the unique known names in input order
       (slicesFilter(slicesUniq(input), known));
     - otherwise the known names in Go map order: [order] is that order (the
       observed one); it is used only if it is a permutation of the known names.
   None = NewMemory returns ErrStateMissing ("no states to track"). *)
Definition requested_tracked (w : rawcfg) : list nat :=
  w_tracked w ++ (if w_called_excl w then [] else w_called w)
              ++ (if w_changed_excl w then [] else w_changed w).

Definition parse_states (nstates : nat) (order : list nat) (l : list nat) : list nat :=
  let known := filter (fun s => s <? nstates) l in
  if has_dup known then filter (fun s => s <? nstates) (uniq l)
  else if perm_eqb order known then order else known.

Definition new_memory (nstates : nat) (order : list nat) (w : rawcfg) : option hcfg :=
  let tr := parse_states nstates order (requested_tracked w) in
  match tr with
  | [] => None
  | _ =>
    Some {| c_called := w_called w; c_called_excl := w_called_excl w;
            c_changed := w_changed w; c_changed_excl := w_changed_excl w;
            c_rejected := w_rejected w; c_store_tx := w_store_tx w;
            c_tracked := tr;
            c_max := if (w_max w <=? 0)%Z then 1000 else Z.to_nat (w_max w) |}
  end.

(* ------------------------------------------------------------ records *)

Record txrec := {
  tr_called : list Z;       (* m.Index(called): tracked index or -1 *)
  tr_auto : bool;
  tr_accepted : bool;
  tr_check : bool;
  tr_queued_at : N;
  tr_executed_at : N
}.

Record hrec := {
  r_type : N;
  r_sum : N;                (* MTimeSum *)
  r_tsum : N;               (* MTimeTrackedSum *)
  r_diff : N;               (* MTimeDiffSum *)
  r_tdiff : N;              (* MTimeTrackedDiffSum *)
  r_rdiff : N;              (* MTimeRecordDiffSum *)
  r_htime : N;
  r_tracked : list N;       (* MTimeTracked *)
  r_tracked_diff : list N;  (* MTimeTrackedDiff *)
  r_mtick : N;
  r_tx : option txrec
}.

(* ------------------------------------------------------------ TransitionEnd *)

Definition was_called (tx : htx) (s : nat) : bool := mem s (x_called tx).

(* TimeAfter.DiffSince(TimeBefore)...NonZeroStates() contains s *)
Definition was_changed (tx : htx) (s : nat) : bool :=
  negb (nth s (diff_since (x_after tx) (x_before tx)) 0 =? 0)%N.

(* the two `for _, name := range cfg.X` loops: the first listed name that hit
   decides, later names are not looked at *)
Fixpoint scan_list (l : list nat) (hit : nat -> bool) (excl : bool) (m : bool) : bool :=
  match l with
  | [] => m
  | s :: r => if hit s then negb excl else scan_list r hit excl m
  end.

Definition is_nil {A} (l : list A) : bool := match l with [] => true | _ => false end.

Definition matches (c : hcfg) (tx : htx) : bool :=
  if (negb (x_accepted tx) && negb (c_rejected c)) || x_check tx then false
  else
    let m0 := (c_changed_excl c || is_nil (c_changed c)) &&
              (c_called_excl c || is_nil (c_called c)) in
    let m1 := scan_list (c_called c) (was_called tx) (c_called_excl c) m0 in
    scan_list (c_changed c) (was_changed tx) (c_changed_excl c) m1.

Definition tracked_index (c : hcfg) (s : nat) : Z :=
  match pos_in (c_tracked c) s with 0 => (-1)%Z | S i => Z.of_nat i end.

Fixpoint last_opt {A} (l : list A) : option A :=
  match l with
  | [] => None
  | x :: r => match r with [] => Some x | _ => last_opt r end
  end.

(* [prev] = m.db[len(m.db)-1] if any *)
Definition mk_record (c : hcfg) (prev : option hrec) (tx : htx) : hrec :=
  let mtime := x_after tx in
  let tracked := time_filter mtime (c_tracked c) in
  let tracked_before := time_filter (x_before tx) (c_tracked c) in
  let sum := time_sum mtime in
  let tsum := time_sum tracked in
  {| r_type := x_type tx;
     r_sum := sum;
     r_tsum := tsum;
     r_diff := sub64 sum (time_sum (x_before tx));
     r_tdiff := sub64 tsum (time_sum_idx (x_before tx) (c_tracked c));
     r_rdiff := match prev with Some p => sub64 sum (r_sum p) | None => 0%N end;
     r_htime := x_htime tx;
     r_tracked := tracked;
     r_tracked_diff := diff_since tracked tracked_before;
     r_mtick := x_mtick tx;
     r_tx := if c_store_tx c then
               Some {| tr_called := map (tracked_index c) (x_called tx);
                       tr_auto := x_auto tx;
                       tr_accepted := x_accepted tx;
                       tr_check := x_check tx;
                       tr_queued_at := x_qtick tx;
                       tr_executed_at := if (0 <? x_qtick tx)%N then x_mach_qtick tx else 0%N |}
             else None |}.

(* lines 435-439; c_max >= 1, so db[1:] is never taken of an empty slice *)
Definition rotate (c : hcfg) (db : list hrec) : list hrec :=
  if c_max c <=? length db then tl db else db.

Definition track (c : hcfg) (db : list hrec) (tx : htx) : list hrec :=
  if matches c tx then rotate c db ++ [mk_record c (last_opt db) tx] else db.

Definition run_log (c : hcfg) (txs : list htx) : list hrec := fold_left (track c) txs [].

(* MachineRecord.NextId: 1 + number of records ever created *)
Definition next_id (c : hcfg) (txs : list htx) : N :=
  N.of_nat (S (length (filter (matches c) txs))).

(* ------------------------------------------------------------ queries *)

Record ctime := {
  t_mstates : list nat;
  t_mtime : list N;
  t_htime : N;
  t_sum : N;
  t_tsum : N;
  t_diff : N;
  t_tdiff : N;
  t_rdiff : N;
  t_mtick : N
}.

Record query := {
  q_active : list nat;
  q_activated : list nat;
  q_inactive : list nat;
  q_deactivated : list nat;
  q_start : ctime;
  q_end : ctime
}.

Inductive fl_result :=
| FlErr                     (* ValidateQuery error *)
| FlPanic                   (* index out of range *)
| FlOk (idxs : list nat).   (* positions in db of the returned records *)

Definition is_tracked (c : hcfg) (s : nat) : bool := mem s (c_tracked c).

Definition validate (c : hcfg) (q : query) : bool :=
  forallb (is_tracked c)
    (q_active q ++ q_activated q ++ q_inactive q ++ q_deactivated q
     ++ t_mstates (q_start q) ++ t_mstates (q_end q))
  && Nat.eqb (length (t_mstates (q_start q))) (length (t_mtime (q_start q)))
  && Nat.eqb (length (t_mstates (q_end q))) (length (t_mtime (q_end q))).

(* r.Time.MTimeTracked[i] *)
Definition at_tracked (r : hrec) (i : Z) : option N :=
  if (i <? 0)%Z then None else nth_error (r_tracked r) (Z.to_nat i).

(* r.Time.MTimeTrackedDiff[i] *)
Definition at_tracked_diff (r : hrec) (i : Z) : option N :=
  if (i <? 0)%Z then None else nth_error (r_tracked_diff r) (Z.to_nat i).

(* The four state clauses.  m.Index1(state) = slices.Index(Cfg.TrackedStates,
   state) is -1 for a state that is not tracked, and MTimeTracked[-1] panics;
   ValidateQuery rejects such a query before the loop is entered.  A record is
   rejected (`continue records`) as soon as one listed state fails.
   Activated / Deactivated are decided by the record alone: the state is
   active / inactive after the transition and its own MTimeTrackedDiff entry is
   odd (the state flipped in this very transition); a record whose
   MTimeTrackedDiff were shorter than its MTimeTracked would panic here.
   (Before eab91e0 every `continue` continued the INNER loop, so no clause ever
   rejected a record, and Inactive indexed with the machine index; before
   3ac5b4b Activated / Deactivated compared with the previous stored record
   db[i-1], the oldest record passing for want of one.) *)
Inductive cl_res := CPanic | CReject | CPass.

(* for _, state := range query.Active {
     if !IsActiveTick(r.Time.MTimeTracked[m.Index1(state)]) { continue records } } *)
Fixpoint clause_active (c : hcfg) (r : hrec) (l : list nat) : cl_res :=
  match l with
  | [] => CPass
  | s :: rest =>
    match at_tracked r (tracked_index c s) with
    | None => CPanic
    | Some t => if negb (active_tick t) then CReject else clause_active c r rest
    end
  end.

(* idx := m.Index1(state)
   if !IsActiveTick(r.Time.MTimeTracked[idx]) { continue records }
   if r.Time.MTimeTrackedDiff[idx]%2 == 0 { continue records } *)
Fixpoint clause_activated (c : hcfg) (r : hrec) (l : list nat) : cl_res :=
  match l with
  | [] => CPass
  | s :: rest =>
    let idx := tracked_index c s in
    match at_tracked r idx with
    | None => CPanic
    | Some t =>
      if negb (active_tick t) then CReject
      else match at_tracked_diff r idx with
           | None => CPanic
           | Some d => if N.even d then CReject else clause_activated c r rest
           end
    end
  end.

(* if IsActiveTick(r.Time.MTimeTracked[m.Index1(state)]) { continue records } *)
Fixpoint clause_inactive (c : hcfg) (r : hrec) (l : list nat) : cl_res :=
  match l with
  | [] => CPass
  | s :: rest =>
    match at_tracked r (tracked_index c s) with
    | None => CPanic
    | Some t => if active_tick t then CReject else clause_inactive c r rest
    end
  end.

(* if IsActiveTick(r.Time.MTimeTracked[idx]) { continue records }
   if r.Time.MTimeTrackedDiff[idx]%2 == 0 { continue records } *)
Fixpoint clause_deactivated (c : hcfg) (r : hrec) (l : list nat) : cl_res :=
  match l with
  | [] => CPass
  | s :: rest =>
    let idx := tracked_index c s in
    match at_tracked r idx with
    | None => CPanic
    | Some t =>
      if active_tick t then CReject
      else match at_tracked_diff r idx with
           | None => CPanic
           | Some d => if N.even d then CReject else clause_deactivated c r rest
           end
    end
  end.

(* `if len(s.MTimeStates) > 0 { ... continue }`.  true = skip the record.
   Only Start.MTimeStates is consulted. *)
Definition mtime_skip (c : hcfg) (q : query) (r : hrec) : bool :=
  let s := q_start q in let e := q_end q in
  if is_nil (t_mstates s) then false
  else
    let idxs := map (fun st => Z.to_nat (tracked_index c st)) (t_mstates s) in
    let cond := time_filter (r_tracked r) idxs in
    time_before false cond (t_mtime s) || time_after false cond (t_mtime e).

(* `if s.X != 0 && e.X != 0 && (v < s.X || v > e.X) { continue }` *)
Definition range_skip (s e v : N) : bool :=
  negb (s =? 0)%N && negb (e =? 0)%N && ((v <? s)%N || (e <? v)%N).

Definition scalar_skip (q : query) (r : hrec) : bool :=
  let s := q_start q in let e := q_end q in
  range_skip (t_htime s) (t_htime e) (r_htime r)
  || range_skip (t_sum s) (t_sum e) (r_sum r)
  || range_skip (t_tsum s) (t_tsum e) (r_tsum r)
  || range_skip (t_diff s) (t_diff e) (r_diff r)
  || range_skip (t_tdiff s) (t_tdiff e) (r_tdiff r)
  || range_skip (t_rdiff s) (t_rdiff e) (r_rdiff r)
  || range_skip (t_mtick s) (t_mtick e) (r_mtick r).

Inductive step_res := SPanic | SSkip | STake.

(* the body of `for i := len(db) - 1; i >= 0; i--` for one record *)
Definition rec_step (c : hcfg) (q : query) (r : hrec) : step_res :=
  match clause_active c r (q_active q) with
  | CPanic => SPanic | CReject => SSkip | CPass =>
  match clause_activated c r (q_activated q) with
  | CPanic => SPanic | CReject => SSkip | CPass =>
  match clause_inactive c r (q_inactive q) with
  | CPanic => SPanic | CReject => SSkip | CPass =>
  match clause_deactivated c r (q_deactivated q) with
  | CPanic => SPanic | CReject => SSkip | CPass =>
    if mtime_skip c q r then SSkip
    else if scalar_skip q r then SSkip
    else STake
  end end end end.

(* (position, db[i]) *)
Fixpoint with_pos (pos : nat) (db : list hrec) : list (nat * hrec) :=
  match db with
  | [] => []
  | r :: rest => (pos, r) :: with_pos (S pos) rest
  end.

(* for i := len(db) - 1; i >= 0; i-- *)
Definition newest_first (db : list hrec) : list (nat * hrec) := rev (with_pos 0 db).

Definition limit_hit (limit : Z) (n : nat) : bool :=
  (0 <? limit)%Z && (limit <=? Z.of_nat n)%Z.

Fixpoint fl_loop (c : hcfg) (q : query) (limit : Z)
  (l : list (nat * hrec)) (ret : list nat) : fl_result :=
  match l with
  | [] => FlOk ret
  | (pos, r) :: rest =>
    match rec_step c q r with
    | SPanic => FlPanic
    | SSkip => fl_loop c q limit rest ret
    | STake =>
      let ret' := ret ++ [pos] in
      if limit_hit limit (length ret') then FlOk ret' else fl_loop c q limit rest ret'
    end
  end.

Definition find_latest (c : hcfg) (db : list hrec) (limit : Z) (q : query) : fl_result :=
  if negb (validate c q) then FlErr else fl_loop c q limit (newest_first db) [].

(* ------------------------------------------------------------ *Between *)

Definition ctime_h (h : N) : ctime :=
  {| t_mstates := []; t_mtime := []; t_htime := h; t_sum := 0; t_tsum := 0;
     t_diff := 0; t_tdiff := 0; t_rdiff := 0; t_mtick := 0 |}.

(* kind: 0 ActivatedBetween, 1 ActiveBetween, 2 DeactivatedBetween,
   3 InactiveBetween *)
Definition between_query (kind : N) (s : nat) (hs he : N) : query :=
  {| q_active := if (kind =? 1)%N then [s] else [];
     q_activated := if (kind =? 0)%N then [s] else [];
     q_inactive := if (kind =? 3)%N then [s] else [];
     q_deactivated := if (kind =? 2)%N then [s] else [];
     q_start := ctime_h hs; q_end := ctime_h he |}.

(* `err == nil && ret != nil`; None = the call panics *)
Definition between (c : hcfg) (db : list hrec) (kind : N) (s : nat) (hs he : N)
  : option bool :=
  match find_latest c db 1 (between_query kind s hs he) with
  | FlErr => Some false
  | FlPanic => None
  | FlOk [] => Some false
  | FlOk _ => Some true
  end.

(* ------------------------------------------------------------ Export / Import *)

(* a machine, as far as Export / Import are concerned; states are ids, the
   clock is indexed by id, [e_names] is StateNames() (an order of the ids) *)
Record emach := {
  e_clock : list N;
  e_active : list nat;       (* activeStates, ordered *)
  e_names : list nat;
  e_mtick : N;
  e_qtick : N;
  e_has_restored : bool      (* the schema defines MachineRestored *)
}.

Record serialized := {
  z_time : list N;
  z_names : list nat;
  z_mtick : N;
  z_qtick : N
}.

(* Machine.time(nil) *)
Definition mach_time (m : emach) : list N := map (tick (e_clock m)) (e_names m).

Definition export (m : emach) : serialized :=
  {| z_time := mach_time m; z_names := e_names m; z_mtick := e_mtick m;
     z_qtick := e_qtick m |}.

Inductive imp_result :=
| IErr (code : N)           (* 1 state count differs, 2 unknown state *)
| IPanic                    (* data.StateNames[idx] out of range *)
| IHang                     (* Add1(MachineRestored) under the held locks *)
| IOk (m : emach).

Fixpoint set_nth (l : list N) (i : nat) (v : N) : list N :=
  match l, i with
  | [], _ => []
  | _ :: r, 0 => v :: r
  | x :: r, S k => x :: set_nth r k v
  end.

(* `for idx, v := range data.Time` *)
Fixpoint import_loop (m : emach) (names : list nat) (idx : nat) (time : list N)
  (clock : list N) (active : list nat) : option (option (list N * list nat)) :=
  match time with
  | [] => Some (Some (clock, active))
  | v :: rest =>
    match nth_error names idx with
    | None => None                                   (* panic *)
    | Some st =>
      if negb (mem st (e_names m)) then Some None    (* ErrStateUnknown *)
      else
        import_loop m names (S idx) rest (set_nth clock st v)
          (if active_tick v then active ++ [st] else active)
    end
  end.

Definition import (m : emach) (d : serialized) : imp_result :=
  if negb (Nat.eqb (length (e_names m)) (length (z_names d))) then IErr 1
  else
    match import_loop m (z_names d) 0 (z_time d) (e_clock m) [] with
    | None => IPanic
    | Some None => IErr 2
    | Some (Some (clock, active)) =>
      if e_has_restored m then IHang
      else IOk {| e_clock := clock; e_active := active; e_names := z_names d;
                  e_mtick := (z_mtick d + 1)%N;      (* uint32, wrap ignored *)
                  e_qtick := e_qtick m;              (* the queue tick is NOT restored *)
                  e_has_restored := false |}
    end.
