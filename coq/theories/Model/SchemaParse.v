(* Model of Schema.Parse (pkg/machine/mach_utils.go). References to names the
   schema does not define are indexes >= length of the schema. Proof-free. *)
From Coq Require Import List Bool Arith.
From AMV Require Import Base.ListSet Model.Schema.
Import ListNotations.

Definition known (n : nat) (i : nat) : bool := i <? n.

(* the loop over state.Add: an Add target that is also Removed wins over the
   Remove; an undefined Add target is dropped *)
Fixpoint parse_adds (n : nat) (adds : list nat) (rem add : list nat) : list nat * list nat :=
  match adds with
  | [] => (rem, add)
  | a :: r =>
    (* existence first (since fix 61dc2db; before, an undefined name listed in
       both relations was only taken out of Remove and survived in Add) *)
    if negb (known n a) then parse_adds n r rem (without add a)
    else if mem a rem then parse_adds n r (without rem a) add
    else parse_adds n r rem add
  end.

Definition parse_state (n : nat) (name : nat) (d : sdef) : sdef :=
  let rem1 := if mem name (s_remove d) then without (s_remove d) name else s_remove d in
  let '(rem2, add2) := parse_adds n (s_add d) rem1 (s_add d) in
  let aft1 := if mem name (s_after d) then without (s_after d) name else s_after d in
  {| s_auto := s_auto d; s_multi := s_multi d; s_require := s_require d;
     s_add := add2; s_remove := filter (known n) rem2; s_after := filter (known n) aft1 |}.

Definition parse_schema (raw : schema) : schema :=
  map (fun p : nat * sdef => parse_state (length raw) (fst p) (snd p))
      (combine (seq 0 (length raw)) raw).

(* Parse's error: a Require target that is (still) in Remove after the
   self-Remove and Add-vs-Remove normalisation *)
Definition parse_error (raw : schema) : bool :=
  existsb (fun p : nat * sdef =>
    let d := snd p in
    let rem1 := if mem (fst p) (s_remove d) then without (s_remove d) (fst p) else s_remove d in
    let '(rem2, _) := parse_adds (length raw) (s_add d) rem1 (s_add d) in
    existsb (fun r => mem r rem2) (s_require d))
    (combine (seq 0 (length raw)) raw).

Definition sdef_eqb (a b : sdef) : bool :=
  Bool.eqb (s_auto a) (s_auto b) && Bool.eqb (s_multi a) (s_multi b)
  && list_eqb (s_require a) (s_require b) && list_eqb (s_add a) (s_add b)
  && list_eqb (s_remove a) (s_remove b) && list_eqb (s_after a) (s_after b).

Fixpoint schema_eqb (a b : schema) : bool :=
  match a, b with
  | [], [] => true
  | x :: r, y :: s => sdef_eqb x y && schema_eqb r s
  | _, _ => false
  end.
