(* C06 - waiting: no lost or spurious wake-ups; state contexts bound to one
   state instance. Property theorems; nothing but statements closed by [exact].

   The subscription manager (Model/Subs.v) is driven by event lists; the
   events of a history of the machine model are Model/SubsTrace.v events_of.
   Witnesses ("_refuted") are real histories of the machine model
   (C06Proofs.hist_events: flat or small schemas, top-level calls, scheduled
   subscription operations); each is replayed on the implementation from
   corpus/C06. The model follows /repo as repaired by the commits d91331e
   (When with a context listed once), bef071d (SetSchema keeps the live clock),
   1b182d7 (ProcessWhenQueue for canceled transitions), 67f008f (dispose closes
   WhenQuery), 296eb40 (WhenQuery with a context); the refutations of those
   defects are gone, [repaired_examples] keeps their witnesses.
   Not proved: whentime_iff (the WhenTime index is covered by the
   correspondence run only). *)
From Coq Require Import List NArith Bool Arith.
From AMV Require Import Base.ListSet Model.Schema Model.Machine Model.Subs Model.SubsTrace Spec.C06.
From AMV Require Proofs.C06Proofs.
Import ListNotations.

(* ------------------------------------------------------------------------
   When / WhenNot. Notions (Spec/C06.v):
     plain_ev     no context ends, no Dispose
     coherent a   the activity read by the When / WhenNot calls is the activity
                  told to the manager by processSubscriptions (act_upd)
     told_cond    all states of the binding (in)active on the told activity
     walked_later a later processed transition marked all states of the
                  binding at once during ProcessWhen's walk over
                  activated ++ deactivated (walk_full, hybrid)
     held_later   the condition held at the end of a later processed transition
   For histories of the machine model the event list is SubsTrace.events_of;
   coherence of those event lists is evaluated on every observed trace by the
   correspondence run (kind-1 codes), not proved from Model/Machine.v. *)

(* full characterisation, any number of states: closed <-> the condition held
   when subscribing or a later walk completed the binding *)
Theorem when_iff : forall a0 pre k v neg sts ctx post,
  let es := pre ++ EOp k v (when_op neg sts ctx) :: post in
  forallb plain_ev es = true -> coherent a0 es -> fresh_k k post -> known v sts = true ->
  let a1 := acts a0 pre in
  closed_of (run init_sst es) k = told_cond neg sts a1 || walked_later neg sts a1 post.
Proof. exact C06Proofs.when_iff_lemma. Qed.
Print Assumptions when_iff.

(* When1 / WhenNot1: closed <-> condition at subscribe or at the end of some
   later processed transition *)
Theorem when_single_state_iff : forall a0 pre k v neg x ctx post,
  let es := pre ++ EOp k v (when_op neg [x] ctx) :: post in
  forallb plain_ev es = true -> coherent a0 es -> fresh_k k post -> known v [x] = true ->
  let a1 := acts a0 pre in
  closed_of (run init_sst es) k
  = Bool.eqb (a1 x) (negb neg) || held_later (fun a' => Bool.eqb (a' x) (negb neg)) a1 post.
Proof. exact C06Proofs.when_single_state_iff_lemma. Qed.
Print Assumptions when_single_state_iff.

(* multi-state: never open once the condition has held *)
Theorem when_no_lost_wakeup : forall a0 pre k v neg sts ctx post,
  let es := pre ++ EOp k v (when_op neg sts ctx) :: post in
  forallb plain_ev es = true -> coherent a0 es -> fresh_k k post -> known v sts = true ->
  let a1 := acts a0 pre in
  told_cond neg sts a1 || held_later (told_cond neg sts) a1 post = true ->
  closed_of (run init_sst es) k = true.
Proof. exact C06Proofs.when_no_lost_wakeup_lemma. Qed.
Print Assumptions when_no_lost_wakeup.

Theorem when_iff_nonvacuous :
  let v := C06Proofs.ex_view [0] [1; 0; 0]%N 2 false in
  let es := C06Proofs.ex_pre ++ EOp 0 v (when_op false [0; 1] None) :: C06Proofs.ex_post in
  forallb plain_ev es = true /\ coherent C06Proofs.ex_a0 es /\ fresh_k 0 C06Proofs.ex_post /\
  known v [0; 1] = true /\
  told_cond false [0; 1] (acts C06Proofs.ex_a0 C06Proofs.ex_pre) = false /\
  held_later (told_cond false [0; 1]) (acts C06Proofs.ex_a0 C06Proofs.ex_pre) C06Proofs.ex_post = false /\
  walked_later false [0; 1] (acts C06Proofs.ex_a0 C06Proofs.ex_pre) C06Proofs.ex_post = true /\
  closed_of (run init_sst es) 0 = true.
Proof. exact C06Proofs.when_iff_nonvacuous_lemma. Qed.
Print Assumptions when_iff_nonvacuous.

Theorem when_single_nonvacuous :
  let v := C06Proofs.ex_view [0] [1; 0; 0]%N 2 false in
  let es := C06Proofs.ex_pre ++ EOp 0 v (when_op false [1] None) :: C06Proofs.ex_post in
  forallb plain_ev es = true /\ coherent C06Proofs.ex_a0 es /\ fresh_k 0 C06Proofs.ex_post /\
  known v [1] = true /\
  Bool.eqb (acts C06Proofs.ex_a0 C06Proofs.ex_pre 1) true = false /\
  held_later (fun a' => Bool.eqb (a' 1) true) (acts C06Proofs.ex_a0 C06Proofs.ex_pre) C06Proofs.ex_post = true /\
  closed_of (run init_sst es) 0 = true.
Proof. exact C06Proofs.when_single_nonvacuous_lemma. Qed.
Print Assumptions when_single_nonvacuous.

(* Stated: "a When channel never closes while its condition has not held".
   False: When [A;B] with A active closes on Set [B]. *)
Theorem when_spurious_refuted :
  exists (sc : schema) (calls : list api_call) (c : nat) (sts : list nat),
    let ops := [C06Proofs.at_call c (OWhen sts None)] in
    let es := C06Proofs.hist_events sc [] [] calls ops in
    (forall k v o, In (EOp k v o) es -> cond o v = false) /\
    (forall v p, In (v, p) (C06Proofs.tx_end_views es) -> cond (OWhen sts None) v = false) /\
    last (C06Proofs.polls_of ops es) [] = [true].
Proof. exact C06Proofs.when_spurious_refuted_lemma. Qed.
Print Assumptions when_spurious_refuted.

(* what remains true: a closed channel means the condition held when
   subscribing or all states were marked at once during a walk *)
Theorem when_spurious_partial : forall a0 pre k v neg sts ctx post,
  let es := pre ++ EOp k v (when_op neg sts ctx) :: post in
  forallb plain_ev es = true -> coherent a0 es -> fresh_k k post -> known v sts = true ->
  let a1 := acts a0 pre in
  closed_of (run init_sst es) k = true ->
  told_cond neg sts a1 = true \/ walked_later neg sts a1 post = true.
Proof. exact C06Proofs.when_spurious_partial_lemma. Qed.
Print Assumptions when_spurious_partial.




(* WhenQueue, over ALL event lists (ended contexts, SetSchema, Dispose included):
   the channel is closed if the tick was reached when subscribing or by a later
   processSubscriptions / by the ProcessWhenQueue of a later canceled transition
   (processed_with counts both). The other direction (never closed before) is
   covered by the correspondence run only. *)
Theorem whenqueue_no_lost : forall pre k v t post,
  let es := pre ++ EOp k v (OWhenQueue t) :: post in
  fresh_k k post ->
  (t <=? v_qtick v)%N || processed_with (fun qt => (t <=? qt)%N) post = true ->
  closed_of (run init_sst es) k = true.
Proof. exact C06Proofs.whenqueue_no_lost_lemma. Qed.
Print Assumptions whenqueue_no_lost.

(* WhenQueueEnds: closed at once on an idle machine, else by the next queue end *)
Theorem whenqueueends : forall pre k v post,
  let es := pre ++ EOp k v OWhenQueueEnds :: post in
  fresh_k k post -> v_running v = false \/ In EQueueEnd post ->
  closed_of (run init_sst es) k = true.
Proof. exact C06Proofs.whenqueueends_lemma. Qed.
Print Assumptions whenqueueends.

(* WhenQuery, with or without a context, over ALL event lists: closed once a
   later processSubscriptions finds the predicate true on the clock (never
   served by canceled / check transitions: known finding 2:659) *)
Theorem whenquery_no_lost : forall pre k v f ctx post,
  let es := pre ++ EOp k v (OWhenQuery f ctx) :: post in
  fresh_k k post -> query_held f post = true ->
  closed_of (run init_sst es) k = true.
Proof. exact C06Proofs.whenquery_no_lost_lemma. Qed.
Print Assumptions whenquery_no_lost.

(* no run of the manager panics inside processSubscriptions any more *)
Theorem never_crashed : forall es, ss_crashed (run init_sst es) = false.
Proof. exact C06Proofs.never_crashed_lemma. Qed.
Print Assumptions never_crashed.

(* the histories that witnessed the repaired defects (SetSchema clock copy,
   WhenQueue of a canceled mutation, double gc of a multi-state When with a
   context, WhenQuery with a context), as served now *)
Theorem repaired_examples :
  last (C06Proofs.polls_of C06Proofs.w3_ops (C06Proofs.hist_events (C06Proofs.flat_schema 1) [] []
          [C06Proofs.call KAdd [0]; C06Proofs.call KRemove [0]; C06Proofs.call KAdd [0]] C06Proofs.w3_ops)) []
    = [false; true] /\
  C06Proofs.polls_of [C06Proofs.at_call 0 (OWhenQueue 2)]
    (C06Proofs.hist_events C06Proofs.req_schema [] [] [C06Proofs.call KAdd [0]]
       [C06Proofs.at_call 0 (OWhenQueue 2)]) = [[true]; [true]] /\
  nth 1 (last (C06Proofs.polls_of C06Proofs.w5_ops (C06Proofs.hist_events (C06Proofs.flat_schema 3) [] []
                 [C06Proofs.call KAdd [2]; C06Proofs.call KAdd [0]] C06Proofs.w5_ops)) []) false = true /\
  (forall (s : sst) (v : view) (f : qfn) (c : nat),
      ss_disposed s = false -> mem c (ss_done s) = false ->
      snd (do_op s v (OWhenQuery f (Some c))) = RChan (ss_next s)).
Proof. exact C06Proofs.repaired_examples_lemma. Qed.
Print Assumptions repaired_examples.


(* Stated: statectx_iff_tick_changed for all schedules. False for a context
   made between setActiveStates and ProcessStateCtx. *)
Theorem statectx_window_refuted :
  exists (sc : schema) (calls : list api_call) (x : nat),
    let ops := [{| so_pos := PApplied 0; so_op := ONewStateCtx x |}] in
    let es := C06Proofs.hist_events sc [] [] calls ops in
    (exists k v, In (EOp k v (ONewStateCtx x)) es /\
       forall v' p, In (v', p) (C06Proofs.tx_end_views es) ->
                    tick_of (v_clock v') x = tick_of (v_clock v) x) /\
    last (C06Proofs.polls_of ops es) [] = [true].
Proof. exact C06Proofs.statectx_window_refuted_lemma. Qed.
Print Assumptions statectx_window_refuted.

(* what remains true of statectx_iff_tick_changed, over ALL event lists: a
   context is canceled by the next ProcessStateCtx that lists its state
   (fault-free: exactly the transitions that move its tick) ... *)
Theorem statectx_partial : forall pre k v x post,
  let es := pre ++ EOp k v (ONewStateCtx x) :: post in
  fresh_k k post -> known v [x] = true -> ctx_touched x post = true ->
  closed_of (run init_sst es) k = true.
Proof. exact C06Proofs.statectx_partial_lemma. Qed.
Print Assumptions statectx_partial.

(* ... and ProcessStateCtx cancels nothing but contexts of the listed states *)
Theorem statectx_only : forall s act deact i,
  is_closed (process_state_ctx s act deact) i = true ->
  is_closed s i = true \/ exists x t, In x (act ++ deact) /\ In (x, (i, t)) (ss_sctx s).
Proof. exact C06Proofs.statectx_only_lemma. Qed.
Print Assumptions statectx_only.

Theorem queue_ctx_nonvacuous :
  let v := C06Proofs.ex_view [0] [1; 0; 0]%N 2 true in
  (let es := C06Proofs.ex_pre ++ EOp 0 v (OWhenQueue 3) :: C06Proofs.ex_post in
   ss_crashed (run init_sst es) = false /\
   (3 <=? v_qtick v)%N || processed_with (fun qt => (3 <=? qt)%N) C06Proofs.ex_post = true /\
   closed_of (run init_sst (C06Proofs.ex_pre ++ [EOp 0 v (OWhenQueue 3)])) 0 = false) /\
  (let es := C06Proofs.ex_pre ++ EOp 0 v OWhenQueueEnds :: [EQueueEnd] in
   ss_crashed (run init_sst es) = false /\
   closed_of (run init_sst (C06Proofs.ex_pre ++ [EOp 0 v OWhenQueueEnds])) 0 = false) /\
  (let post := [EStateCtx [1] [0]] in
   let es := C06Proofs.ex_pre ++ EOp 0 v (ONewStateCtx 0) :: post in
   ss_crashed (run init_sst es) = false /\ known v [0] = true /\ ctx_touched 0 post = true /\
   closed_of (run init_sst (C06Proofs.ex_pre ++ [EOp 0 v (ONewStateCtx 0)])) 0 = false) /\
  (processed_with (fun qt => (3 <=? qt)%N) [EQueueTick 3] = true /\
   query_held (QActive 1) C06Proofs.ex_post = true /\
   closed_of (run init_sst (C06Proofs.ex_pre ++ [EOp 0 v (OWhenQuery (QActive 1) (Some 1))])) 0 = false).
Proof. exact C06Proofs.queue_ctx_nonvacuous_lemma. Qed.
Print Assumptions queue_ctx_nonvacuous.
