(* C06 - waiting: no lost or spurious wake-ups; state contexts bound to one
   state instance. Property theorems; nothing but statements closed by [exact].

   The subscription manager (Model/Subs.v) is driven by event lists; the
   events of a history of the machine model are Model/SubsTrace.v events_of.
   Witnesses ("_refuted") are real histories of the machine model
   (C06Proofs.hist_events: flat or small schemas, top-level calls, scheduled
   subscription operations); each is replayed on the implementation from
   corpus/C06. The model follows /repo as repaired by the commits d91331e
   (When with a context listed once), bef071d (SetSchema keeps the live clock),
   1b182d7 (ProcessWhenQueue for canceled transitions), 67f008f (dispose closes
   WhenQuery), 296eb40 (WhenQuery with a context), 5683fd8 (two-pass
   ProcessWhen), 3421fb8 (ProcessStateCtx under the applying lock); the
   refutations of those defects are gone, [repaired_examples] keeps their
   witnesses.
   Not proved: whentime_iff (the WhenTime index is covered by the
   correspondence run only). *)
From Coq Require Import List NArith Bool Arith.
From AMV Require Import Base.ListSet Model.Schema Model.Machine Model.Subs Model.SubsTrace Spec.C06.
From AMV Require Proofs.C06Proofs.
Import ListNotations.

(* ------------------------------------------------------------------------
   When / WhenNot. Notions (Spec/C06.v):
     plain_ev     no context ends, no Dispose
     coherent a   the activity read by the When / WhenNot calls is the activity
                  told to the manager by processSubscriptions (act_upd)
     told_cond    all states of the binding (in)active on the told activity
     held_later   the condition held at the end of a later processed transition
   For histories of the machine model the event list is SubsTrace.events_of;
   coherence of those event lists is evaluated on every observed trace by the
   correspondence run (kind-1 codes), not proved from Model/Machine.v. *)

(* the property for When / WhenNot with any number of states, exactly:
   closed <-> the condition held when subscribing or at the end of some later
   processed transition (since the two-pass ProcessWhen, 5683fd8) *)
Theorem when_iff : forall a0 pre k v neg sts ctx post,
  let es := pre ++ EOp k v (when_op neg sts ctx) :: post in
  forallb plain_ev es = true -> coherent a0 es -> fresh_k k post -> known v sts = true ->
  let a1 := acts a0 pre in
  closed_of (run init_sst es) k = told_cond neg sts a1 || held_later (told_cond neg sts) a1 post.
Proof. exact C06Proofs.when_iff_lemma. Qed.
Print Assumptions when_iff.

(* When1 / WhenNot1: closed <-> condition at subscribe or at the end of some
   later processed transition *)
Theorem when_single_state_iff : forall a0 pre k v neg x ctx post,
  let es := pre ++ EOp k v (when_op neg [x] ctx) :: post in
  forallb plain_ev es = true -> coherent a0 es -> fresh_k k post -> known v [x] = true ->
  let a1 := acts a0 pre in
  closed_of (run init_sst es) k
  = Bool.eqb (a1 x) (negb neg) || held_later (fun a' => Bool.eqb (a' x) (negb neg)) a1 post.
Proof. exact C06Proofs.when_single_state_iff_lemma. Qed.
Print Assumptions when_single_state_iff.

(* multi-state: never open once the condition has held *)
Theorem when_no_lost_wakeup : forall a0 pre k v neg sts ctx post,
  let es := pre ++ EOp k v (when_op neg sts ctx) :: post in
  forallb plain_ev es = true -> coherent a0 es -> fresh_k k post -> known v sts = true ->
  let a1 := acts a0 pre in
  told_cond neg sts a1 || held_later (told_cond neg sts) a1 post = true ->
  closed_of (run init_sst es) k = true.
Proof. exact C06Proofs.when_no_lost_wakeup_lemma. Qed.
Print Assumptions when_no_lost_wakeup.

(* ... and never closed while it has not *)
Theorem when_no_spurious_wakeup : forall a0 pre k v neg sts ctx post,
  let es := pre ++ EOp k v (when_op neg sts ctx) :: post in
  forallb plain_ev es = true -> coherent a0 es -> fresh_k k post -> known v sts = true ->
  let a1 := acts a0 pre in
  closed_of (run init_sst es) k = true ->
  told_cond neg sts a1 || held_later (told_cond neg sts) a1 post = true.
Proof. exact C06Proofs.when_no_spurious_wakeup_lemma. Qed.
Print Assumptions when_no_spurious_wakeup.

Theorem when_iff_nonvacuous :
  let v := C06Proofs.ex_view [0] [1; 0; 0]%N 2 false in
  let es := C06Proofs.ex_pre ++ EOp 0 v (when_op false [0; 1] None) :: C06Proofs.ex_post in
  forallb plain_ev es = true /\ coherent C06Proofs.ex_a0 es /\ fresh_k 0 C06Proofs.ex_post /\
  known v [0; 1] = true /\
  told_cond false [0; 1] (acts C06Proofs.ex_a0 C06Proofs.ex_pre) = false /\
  held_later (told_cond false [0; 1]) (acts C06Proofs.ex_a0 C06Proofs.ex_pre) C06Proofs.ex_post = false /\
  closed_of (run init_sst es) 0 = false.
Proof. exact C06Proofs.when_iff_nonvacuous_lemma. Qed.
Print Assumptions when_iff_nonvacuous.

Theorem when_single_nonvacuous :
  let v := C06Proofs.ex_view [0] [1; 0; 0]%N 2 false in
  let es := C06Proofs.ex_pre ++ EOp 0 v (when_op false [1] None) :: C06Proofs.ex_post in
  forallb plain_ev es = true /\ coherent C06Proofs.ex_a0 es /\ fresh_k 0 C06Proofs.ex_post /\
  known v [1] = true /\
  Bool.eqb (acts C06Proofs.ex_a0 C06Proofs.ex_pre 1) true = false /\
  held_later (fun a' => Bool.eqb (a' 1) true) (acts C06Proofs.ex_a0 C06Proofs.ex_pre) C06Proofs.ex_post = true /\
  closed_of (run init_sst es) 0 = true.
Proof. exact C06Proofs.when_single_nonvacuous_lemma. Qed.
Print Assumptions when_single_nonvacuous.





(* WhenQueue, over ALL event lists (ended contexts, SetSchema, Dispose included):
   the channel is closed if the tick was reached when subscribing or by a later
   processSubscriptions / by the ProcessWhenQueue of a later canceled transition
   (processed_with counts both). The other direction (never closed before) is
   covered by the correspondence run only. *)
Theorem whenqueue_no_lost : forall pre k v t post,
  let es := pre ++ EOp k v (OWhenQueue t) :: post in
  fresh_k k post ->
  (t <=? v_qtick v)%N || processed_with (fun qt => (t <=? qt)%N) post = true ->
  closed_of (run init_sst es) k = true.
Proof. exact C06Proofs.whenqueue_no_lost_lemma. Qed.
Print Assumptions whenqueue_no_lost.

(* WhenQueueEnds: closed at once on an idle machine, else by the next queue end *)
Theorem whenqueueends : forall pre k v post,
  let es := pre ++ EOp k v OWhenQueueEnds :: post in
  fresh_k k post -> v_running v = false \/ In EQueueEnd post ->
  closed_of (run init_sst es) k = true.
Proof. exact C06Proofs.whenqueueends_lemma. Qed.
Print Assumptions whenqueueends.

(* WhenQuery, with or without a context, over ALL event lists: closed once a
   later processSubscriptions finds the predicate true on the clock (never
   served by canceled / check transitions: known finding 2:659) *)
Theorem whenquery_no_lost : forall pre k v f ctx post,
  let es := pre ++ EOp k v (OWhenQuery f ctx) :: post in
  fresh_k k post -> query_held f post = true ->
  closed_of (run init_sst es) k = true.
Proof. exact C06Proofs.whenquery_no_lost_lemma. Qed.
Print Assumptions whenquery_no_lost.

(* no run of the manager panics inside processSubscriptions any more *)
Theorem never_crashed : forall es, ss_crashed (run init_sst es) = false.
Proof. exact C06Proofs.never_crashed_lemma. Qed.
Print Assumptions never_crashed.

(* the histories that witnessed the repaired defects (SetSchema clock copy,
   WhenQueue of a canceled mutation, double gc of a multi-state When with a
   context, WhenQuery with a context, When [A;B] closing on Set [B], a state
   context made at tx:applied), as served now *)
Theorem repaired_examples :
  last (C06Proofs.polls_of C06Proofs.w3_ops (C06Proofs.hist_events (C06Proofs.flat_schema 1) [] []
          [C06Proofs.call KAdd [0]; C06Proofs.call KRemove [0]; C06Proofs.call KAdd [0]] C06Proofs.w3_ops)) []
    = [false; true] /\
  C06Proofs.polls_of [C06Proofs.at_call 0 (OWhenQueue 2)]
    (C06Proofs.hist_events C06Proofs.req_schema [] [] [C06Proofs.call KAdd [0]]
       [C06Proofs.at_call 0 (OWhenQueue 2)]) = [[true]; [true]] /\
  nth 1 (last (C06Proofs.polls_of C06Proofs.w5_ops (C06Proofs.hist_events (C06Proofs.flat_schema 3) [] []
                 [C06Proofs.call KAdd [2]; C06Proofs.call KAdd [0]] C06Proofs.w5_ops)) []) false = true /\
  (forall (s : sst) (v : view) (f : qfn) (c : nat),
      ss_disposed s = false -> mem c (ss_done s) = false ->
      snd (do_op s v (OWhenQuery f (Some c))) = RChan (ss_next s)) /\
  last (C06Proofs.polls_of [C06Proofs.at_call 1 (OWhen [0; 1] None)]
          (C06Proofs.hist_events (C06Proofs.flat_schema 2) [] []
             [C06Proofs.call KAdd [0]; C06Proofs.call KSet [1]]
             [C06Proofs.at_call 1 (OWhen [0; 1] None)])) [] = [false] /\
  last (C06Proofs.polls_of [{| so_pos := PApplied 0; so_op := ONewStateCtx 0 |}]
          (C06Proofs.hist_events (C06Proofs.flat_schema 1) [] [] [C06Proofs.call KAdd [0]]
             [{| so_pos := PApplied 0; so_op := ONewStateCtx 0 |}])) [] = [false].
Proof. exact C06Proofs.repaired_examples_lemma. Qed.
Print Assumptions repaired_examples.



(* statectx_iff_tick_changed, as far as proved. Over ALL event lists, for a
   context made at any position (the tx:applied window is closed since
   3421fb8: ProcessStateCtx runs under the lock that applied the states): it is
   canceled by the next ProcessStateCtx that lists its state (fault-free:
   exactly the transitions that move its tick) ... *)
Theorem statectx_partial : forall pre k v x post,
  let es := pre ++ EOp k v (ONewStateCtx x) :: post in
  fresh_k k post -> known v [x] = true -> ctx_touched x post = true ->
  closed_of (run init_sst es) k = true.
Proof. exact C06Proofs.statectx_partial_lemma. Qed.
Print Assumptions statectx_partial.

(* ... and ProcessStateCtx cancels nothing but contexts of the listed states.
   NOT proved at history level: that no other function of the manager closes
   the identity of a state context (identities of the different indexes are
   disjoint) - the converse "canceled -> its state was listed or the machine
   was disposed" is shown by the correspondence run only (codes 2:670, 2:674). *)
Theorem statectx_only : forall s act deact i,
  is_closed (process_state_ctx s act deact) i = true ->
  is_closed s i = true \/ exists x t, In x (act ++ deact) /\ In (x, (i, t)) (ss_sctx s).
Proof. exact C06Proofs.statectx_only_lemma. Qed.
Print Assumptions statectx_only.

Theorem queue_ctx_nonvacuous :
  let v := C06Proofs.ex_view [0] [1; 0; 0]%N 2 true in
  (let es := C06Proofs.ex_pre ++ EOp 0 v (OWhenQueue 3) :: C06Proofs.ex_post in
   ss_crashed (run init_sst es) = false /\
   (3 <=? v_qtick v)%N || processed_with (fun qt => (3 <=? qt)%N) C06Proofs.ex_post = true /\
   closed_of (run init_sst (C06Proofs.ex_pre ++ [EOp 0 v (OWhenQueue 3)])) 0 = false) /\
  (let es := C06Proofs.ex_pre ++ EOp 0 v OWhenQueueEnds :: [EQueueEnd] in
   ss_crashed (run init_sst es) = false /\
   closed_of (run init_sst (C06Proofs.ex_pre ++ [EOp 0 v OWhenQueueEnds])) 0 = false) /\
  (let post := [EStateCtx [1] [0]] in
   let es := C06Proofs.ex_pre ++ EOp 0 v (ONewStateCtx 0) :: post in
   ss_crashed (run init_sst es) = false /\ known v [0] = true /\ ctx_touched 0 post = true /\
   closed_of (run init_sst (C06Proofs.ex_pre ++ [EOp 0 v (ONewStateCtx 0)])) 0 = false) /\
  (processed_with (fun qt => (3 <=? qt)%N) [EQueueTick 3] = true /\
   query_held (QActive 1) C06Proofs.ex_post = true /\
   closed_of (run init_sst (C06Proofs.ex_pre ++ [EOp 0 v (OWhenQuery (QActive 1) (Some 1))])) 0 = false).
Proof. exact C06Proofs.queue_ctx_nonvacuous_lemma. Qed.
Print Assumptions queue_ctx_nonvacuous.

(* ------------------------------------------------------------------------
   WhenTime (positional thresholds). Notions (Proofs/C06Time.v):
     tcond sts times cl   every listed state's tick in clock cl >= its threshold
     time_held            tcond held on the clock of a later processSubscriptions
     tcoherent c es       the WhenTime-family calls read the clock c of the last
                          processSubscriptions, whose ClockBefore is c again, of
                          the same length, ticks never go back; WhenTime gets
                          duplicate-free states and as many times
     clks c pre           the clock after the events pre
   Stated: whentime_iff (closed <-> tcond at subscribe or at the end of a later
   processed transition) for any list of states. False for duplicate states:
   WhenTime [A;A] [1;1] counts Total = 2 but has one Completed flag, so the
   binding never completes although the condition holds. *)
From AMV Require Proofs.C06Time.

Theorem whentime_dup_refuted :
  exists (sts : list nat) (times : list N) (v : view) (post : list sevent),
    let es := EOp 0 v (OWhenTime sts times None) :: post in
    forallb plain_ev es = true /\ length times = length sts /\
    C06Time.time_held sts times post = true /\ closed_of (run init_sst es) 0 = false.
Proof. exact C06Time.whentime_dup_refuted_lemma. Qed.
Print Assumptions whentime_dup_refuted.

(* what is proved: no lost wake-up, for duplicate-free states, on plain runs
   with coherent clocks. NOT proved (nor refuted): the converse, closed ->
   the condition held (it needs the disjointness of the identities of the
   different indexes); shown by the correspondence run only (codes 2:630, 2:634) *)
Theorem whentime_partial : forall c0 pre k v sts times ctx post,
  let es := pre ++ EOp k v (OWhenTime sts times ctx) :: post in
  forallb plain_ev es = true -> C06Time.tcoherent c0 es -> fresh_k k post ->
  let c1 := C06Time.clks c0 pre in
  C06Time.tcond sts times c1 || C06Time.time_held sts times post = true ->
  closed_of (run init_sst es) k = true.
Proof. exact C06Time.whentime_no_lost_lemma. Qed.
Print Assumptions whentime_partial.

Theorem whentime_nonvacuous :
  let v := {| v_active := []; v_clock := [0; 0]%N; v_qtick := 1; v_running := false;
              v_window := false; v_applied := false |} in
  let post := [EProcess [0] [] [0; 0]%N [1; 0]%N 2%N; EProcess [1] [] [1; 0]%N [1; 3]%N 3%N] in
  let es := [] ++ EOp 0 v (OWhenTime [0; 1] [1; 2]%N None) :: post in
  forallb plain_ev es = true /\ C06Time.tcoherent [0; 0]%N es /\ fresh_k 0 post /\
  C06Time.tcond [0; 1] [1; 2]%N (C06Time.clks [0; 0]%N []) = false /\
  C06Time.time_held [0; 1] [1; 2]%N post = true /\
  closed_of (run init_sst (EOp 0 v (OWhenTime [0; 1] [1; 2]%N None) :: [hd EPoll post])) 0 = false /\
  closed_of (run init_sst es) 0 = true.
Proof. exact C06Time.whentime_nonvacuous_lemma. Qed.
Print Assumptions whentime_nonvacuous.
