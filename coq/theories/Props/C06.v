(* C06 - waiting: no lost or spurious wake-ups; state contexts bound to one
   state instance. Property theorems; nothing but statements closed by [exact].

   The subscription manager (Model/Subs.v) is driven by event lists; the
   events of a history of the machine model are Model/SubsTrace.v events_of.
   Witnesses ("_refuted") are real histories of the machine model
   (C06Proofs.hist_events: flat or small schemas, top-level calls, scheduled
   subscription operations); each is replayed on the implementation from
   corpus/C06. *)
From Coq Require Import List NArith Bool Arith.
From AMV Require Import Base.ListSet Model.Schema Model.Machine Model.Subs Model.SubsTrace Spec.C06.
From AMV Require Proofs.C06Proofs.
Import ListNotations.

(* Stated: "a When channel never closes while its condition has not held".
   False: When [A;B] with A active closes on Set [B]. *)
Theorem when_spurious_refuted :
  exists (sc : schema) (calls : list api_call) (c : nat) (sts : list nat),
    let ops := [C06Proofs.at_call c (OWhen sts None)] in
    let es := C06Proofs.hist_events sc [] [] calls ops in
    (forall k v o, In (EOp k v o) es -> cond o v = false) /\
    (forall v p, In (v, p) (C06Proofs.tx_end_views es) -> cond (OWhen sts None) v = false) /\
    last (C06Proofs.polls_of ops es) [] = [true].
Proof. exact C06Proofs.when_spurious_refuted_lemma. Qed.
Print Assumptions when_spurious_refuted.

(* Stated: "WhenQuery returns a channel that closes when ... or its context
   ended". False: with a context the call panics. *)
Theorem whenquery_ctx_refuted :
  (forall (s : sst) (v : view) (f : qfn) (c : nat),
      ss_disposed s = false -> mem c (ss_done s) = false ->
      snd (do_op s v (OWhenQuery f (Some c))) = RPanic) /\
  (exists es : list sevent, ss_crashed (run init_sst es) = true).
Proof. exact C06Proofs.whenquery_ctx_refuted_lemma. Qed.
Print Assumptions whenquery_ctx_refuted.

(* Stated: whentime_iff for all histories incl. schema growth. False after
   SetSchema. *)
Theorem whentime_setschema_refuted :
  exists (sc : schema) (calls : list api_call) (ops : list sched_op),
    let es := C06Proofs.hist_events sc [] [] calls ops in
    nth 1 ops (C06Proofs.at_call 0 ONop) = C06Proofs.at_call 1 (OWhenTicks 0 1 None) /\
    existsb (fun vp : view * bool => snd vp && (2 <=? tick_of (v_clock (fst vp)) 0)%N)
            (C06Proofs.tx_end_views es) = true /\
    existsb (fun e => match e with
                      | EOp _ v (OWhenTicks 0 1 None) => N.eqb (tick_of (v_clock v) 0) 1
                      | _ => false end) es = true /\
    last (C06Proofs.polls_of ops es) [] = [false; false].
Proof. exact C06Proofs.whentime_setschema_refuted_lemma. Qed.
Print Assumptions whentime_setschema_refuted.

(* Stated: "WhenQueue(tick) never stays open once the queue has processed the
   tick". False when the mutation carrying the tick is canceled. *)
Theorem whenqueue_canceled_refuted :
  exists (sc : schema) (calls : list api_call) (t : N),
    let ops := [C06Proofs.at_call 0 (OWhenQueue t)] in
    let es := C06Proofs.hist_events sc [] [] calls ops in
    existsb (fun vp : view * bool => negb (snd vp) && cond (OWhenQueue t) (fst vp))
            (C06Proofs.tx_end_views es) = true /\
    C06Proofs.polls_of ops es = [[false]; [false]].
Proof. exact C06Proofs.whenqueue_canceled_refuted_lemma. Qed.
Print Assumptions whenqueue_canceled_refuted.

(* Stated: when_single_state_iff for all op lists. False once a multi-state
   When with a context sharing the state had its context ended. *)
Theorem when1_lost_refuted :
  exists (sc : schema) (calls : list api_call) (ops : list sched_op),
    let es := C06Proofs.hist_events sc [] [] calls ops in
    nth 1 ops (C06Proofs.at_call 0 ONop) = C06Proofs.at_call 0 (OWhen [0] None) /\
    existsb (fun vp : view * bool => snd vp && cond (OWhen [0] None) (fst vp))
            (C06Proofs.tx_end_views es) = true /\
    nth 1 (last (C06Proofs.polls_of ops es) []) true = false.
Proof. exact C06Proofs.when1_lost_refuted_lemma. Qed.
Print Assumptions when1_lost_refuted.

(* Stated: statectx_iff_tick_changed for all schedules. False for a context
   made between setActiveStates and ProcessStateCtx. *)
Theorem statectx_window_refuted :
  exists (sc : schema) (calls : list api_call) (x : nat),
    let ops := [{| so_pos := PApplied 0; so_op := ONewStateCtx x |}] in
    let es := C06Proofs.hist_events sc [] [] calls ops in
    (exists k v, In (EOp k v (ONewStateCtx x)) es /\
       forall v' p, In (v', p) (C06Proofs.tx_end_views es) ->
                    tick_of (v_clock v') x = tick_of (v_clock v) x) /\
    last (C06Proofs.polls_of ops es) [] = [true].
Proof. exact C06Proofs.statectx_window_refuted_lemma. Qed.
Print Assumptions statectx_window_refuted.
