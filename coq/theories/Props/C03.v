(* C03 — property theorems. Nothing but statements closed by [exact].
   A script is fault-free when every scripted action has [ha_fault = FNone];
   [loop_dead s = false] and [hung s = false] hold in every state of a
   fault-free run (C14.time_chain_run shows [tr_hung = false]). *)
From Coq Require Import List NArith Bool Arith.
From AMV Require Import Base.ListSet Model.Schema Model.Resolver Model.Machine
  Spec.C01 Spec.C03.
From AMV Require Proofs.C03C14Proofs.
Import ListNotations.

(* (a) intended statement, FALSE of the model:
     forall s mu, fault-free -> let '(s', r) := run_tx s mu in
       r = Canceled -> crashed s' = false -> clock s' = clock s /\ active s' = active s.
   An auto mutation whose target did not grow reports Canceled after the
   target was applied. *)
Theorem canceled_no_change_step_refuted :
  exists s mu,
    forallb (fun a => match ha_fault a with FNone => true | _ => false end) (actions s) = true /\
    loop_dead s = false /\ hung s = false /\ crashed s = false /\
    snd (run_tx s mu) = Canceled /\ crashed (fst (run_tx s mu)) = false /\
    clock s = [0%N; 1%N; 0%N] /\ clock (fst (run_tx s mu)) = [1%N; 2%N; 0%N] /\
    active s = [1] /\ active (fst (run_tx s mu)) = [0].
Proof. exact C03C14Proofs.canceled_no_change_step_refuted_lemma. Qed.
Print Assumptions canceled_no_change_step_refuted.

(* the refuting transition occurs in a real run: Add [1] on a schema where
   the Auto state 0 Removes 1 *)
Example canceled_no_change_step_refuted_reachable :
  let sd := fun (auto multi : bool) (rem : list nat) =>
    {| s_auto := auto; s_multi := multi; s_require := []; s_add := []; s_remove := rem;
       s_after := [] |} in
  let sch := [sd true false [1]; sd false false []; sd false true []] in
  let tr := run 100 (init_st sch [] [] 2 [] 10%N [])
                [{| ac_kind := KAdd; ac_states := [1]; ac_args := false |}] in
  map (fun t => (tx_auto t, tx_accepted t, tx_before t, tx_after t)) (tr_txs tr)
  = [(false, true, [0%N; 0%N; 0%N], [0%N; 1%N; 0%N]);
     (true, true, [0%N; 1%N; 0%N], [1%N; 2%N; 0%N])].
Proof. exact C03C14Proofs.canceled_no_change_step_refuted_reachable_lemma. Qed.
Print Assumptions canceled_no_change_step_refuted_reachable.

(* (a) for the mutations a caller can issue (not auto): as stated, and the
   transition cannot crash *)
Theorem canceled_no_change_step_partial :
  forall s mu s' r,
    forallb (fun a => match ha_fault a with FNone => true | _ => false end) (actions s) = true ->
    loop_dead s = false -> hung s = false ->
    mu_auto mu = false ->
    run_tx s mu = (s', r) -> r = Canceled ->
    crashed s' = crashed s /\ clock s' = clock s /\ active s' = active s /\
    exists rec, txs s' = rec :: txs s /\ tx_after rec = tx_before rec /\
                tx_accepted rec = false.
Proof. exact C03C14Proofs.canceled_no_change_step_partial_lemma. Qed.
Print Assumptions canceled_no_change_step_partial.

(* (a) for every mutation: a record that is not accepted moved nothing *)
Theorem unaccepted_no_change_step :
  forall s mu s' r,
    forallb (fun a => match ha_fault a with FNone => true | _ => false end) (actions s) = true ->
    loop_dead s = false -> hung s = false ->
    run_tx s mu = (s', r) -> crashed s' = false ->
    exists rec, txs s' = rec :: txs s /\
      (tx_accepted rec = false ->
         r = Canceled /\ clock s' = clock s /\ active s' = active s /\
         tx_after rec = tx_before rec).
Proof. exact C03C14Proofs.unaccepted_no_change_step_lemma. Qed.
Print Assumptions unaccepted_no_change_step.

Example canceled_no_change_step_nonvacuous :
  let sd := fun (auto multi : bool) (rem : list nat) =>
    {| s_auto := auto; s_multi := multi; s_require := []; s_add := []; s_remove := rem;
       s_after := [] |} in
  let s := init_st [sd true false [1]; sd false false []; sd false true []]
             [] [] 2 [[HEnter 1]] 10%N
             [{| ha_ret := false; ha_calls := []; ha_fault := FNone |}] in
  let mu := {| mu_type := MAdd; mu_called := [1]; mu_auto := false; mu_check := false;
               mu_args := false; mu_qtick := 2 |} in
  forallb (fun a => match ha_fault a with FNone => true | _ => false end) (actions s) = true /\
  loop_dead s = false /\ hung s = false /\ mu_auto mu = false /\
  snd (run_tx s mu) = Canceled /\ length (txs (fst (run_tx s mu))) = 1.
Proof. exact C03C14Proofs.canceled_no_change_step_nonvacuous_lemma. Qed.
Print Assumptions canceled_no_change_step_nonvacuous.

(* (b) a check never moves states, ticks or the queue tick, whatever the
   handlers do (they may enqueue: the queue and the pending count can grow) *)
Theorem check_pure_step :
  forall s mu s' r,
    forallb (fun a => match ha_fault a with FNone => true | _ => false end) (actions s) = true ->
    loop_dead s = false -> hung s = false ->
    mu_check mu = true -> run_tx s mu = (s', r) ->
    clock s' = clock s /\ active s' = active s /\ qtick s' = qtick s.
Proof. exact C03C14Proofs.check_pure_step_lemma. Qed.
Print Assumptions check_pure_step.

Example check_pure_step_nonvacuous :
  let sd := fun (multi : bool) =>
    {| s_auto := false; s_multi := multi; s_require := []; s_add := []; s_remove := [];
       s_after := [] |} in
  let s := init_st [sd false; sd false; sd true] [] [] 2 [[HEnter 1]] 10%N
                   [{| ha_ret := true;
                       ha_calls := [{| ac_kind := KAdd; ac_states := [0]; ac_args := false |}];
                       ha_fault := FNone |}] in
  let mu := check_mut MAdd [1] false in
  forallb (fun a => match ha_fault a with FNone => true | _ => false end) (actions s) = true /\
  loop_dead s = false /\ hung s = false /\ mu_check mu = true /\
  snd (run_tx s mu) = Executed /\
  clock (fst (run_tx s mu)) = clock s /\ active (fst (run_tx s mu)) = active s /\
  qtick (fst (run_tx s mu)) = qtick s /\ length (hlog (fst (run_tx s mu))) = 1.
Proof. exact C03C14Proofs.check_pure_step_nonvacuous_lemma. Qed.
Print Assumptions check_pure_step_nonvacuous.

(* (b) "qpending unchanged" is false when a handler of the check enqueues *)
Theorem check_pure_step_qpending_refuted :
  exists s mu,
    forallb (fun a => match ha_fault a with FNone => true | _ => false end) (actions s) = true /\
    loop_dead s = false /\ hung s = false /\
    mu_check mu = true /\
    qpending s = 0%N /\ qpending (fst (run_tx s mu)) = 1%N /\
    length (queue s) = 0 /\ length (queue (fst (run_tx s mu))) = 1.
Proof. exact C03C14Proofs.check_pure_step_qpending_refuted_lemma. Qed.
Print Assumptions check_pure_step_qpending_refuted.

(* (b) without bound handlers the pending count and the queue are untouched too *)
Theorem check_pure_step_nohandlers :
  forall s mu s' r,
    has_handlers s = false -> mu_check mu = true -> run_tx s mu = (s', r) ->
    clock s' = clock s /\ active s' = active s /\ qtick s' = qtick s /\
    qpending s' = qpending s /\ queue s' = queue s.
Proof. exact C03C14Proofs.check_pure_step_nohandlers_lemma. Qed.
Print Assumptions check_pure_step_nohandlers.

(* (c) what Executed means for a caller's mutation *)
Theorem executed_postcondition_step :
  forall s mu s' r,
    forallb (fun a => match ha_fault a with FNone => true | _ => false end) (actions s) = true ->
    loop_dead s = false -> hung s = false ->
    mu_auto mu = false -> mu_check mu = false ->
    run_tx s mu = (s', r) -> r = Executed ->
    exists rec, txs s' = rec :: txs s /\ tx_accepted rec = true /\
      tx_target rec = resolve (sc s) (topo s) (active s) (mu_type mu) (mu_called mu) /\
      active s' = tx_target rec /\
      clock s' = set_active_clock (sc s) (clock s) (active s) (mu_called mu) (tx_target rec) /\
      tx_after rec = clock s' /\ tx_mach_after rec = clock s' /\
      match mu_type mu with
      | MAdd => every (tx_target rec) (mu_called mu) = true
      | MRemove => none_in (tx_target rec) (mu_called mu) = true
      | MSet => every (tx_target rec) (mu_called mu) = true
      end.
Proof. exact C03C14Proofs.executed_postcondition_step_lemma. Qed.
Print Assumptions executed_postcondition_step.

Example executed_postcondition_step_nonvacuous :
  let sd := fun (auto multi : bool) (rem : list nat) =>
    {| s_auto := auto; s_multi := multi; s_require := []; s_add := []; s_remove := rem;
       s_after := [] |} in
  let s := init_st [sd true false [1]; sd false false []; sd false true []]
                   [] [] 2 [] 10%N [] in
  let mu := {| mu_type := MAdd; mu_called := [1]; mu_auto := false; mu_check := false;
               mu_args := false; mu_qtick := 2 |} in
  snd (run_tx s mu) = Executed /\ active (fst (run_tx s mu)) = [1] /\
  clock (fst (run_tx s mu)) = [0%N; 1%N; 0%N].
Proof. exact C03C14Proofs.executed_postcondition_step_nonvacuous_lemma. Qed.
Print Assumptions executed_postcondition_step_nonvacuous.

(* (c) parity: a well-formed machine (references and called states inside the
   schema, duplicate-free active list, odd tick = active) stays well-formed
   through a transition; the applied target has exactly the odd ticks *)
Theorem wellformed_step :
  forall s mu s' r,
    forallb (fun a => match ha_fault a with FNone => true | _ => false end) (actions s) = true ->
    loop_dead s = false -> hung s = false ->
    refs_ok (sc s) = true -> length (clock s) = length (sc s) -> NoDup (active s) ->
    parity_ok (clock s) (active s) = true -> exc s < length (sc s) ->
    (forall m x, In m (queue s) -> In x (mu_called m) -> x < length (sc s)) ->
    (forall a c x, In a (actions s) -> In c (ha_calls a) -> In x (ac_states c) ->
       x < length (sc s)) ->
    (forall x, In x (mu_called mu) -> x < length (sc s)) ->
    run_tx s mu = (s', r) -> crashed s' = false ->
    (sc s' = sc s /\ length (clock s') = length (sc s') /\ NoDup (active s') /\
     parity_ok (clock s') (active s') = true /\
     (forall m x, In m (queue s') -> In x (mu_called m) -> x < length (sc s')) /\
     (forall a c x, In a (actions s') -> In c (ha_calls a) -> In x (ac_states c) ->
        x < length (sc s'))) /\
    exists rec, txs s' = rec :: txs s /\
      (tx_accepted rec && negb (tx_check rec) = true ->
         parity_ok (tx_after rec) (tx_target rec) = true /\ NoDup (tx_target rec)).
Proof. exact C03C14Proofs.wellformed_step_flat_lemma. Qed.
Print Assumptions wellformed_step.

Example wellformed_step_nonvacuous :
  let sd := fun (auto multi : bool) (rem : list nat) =>
    {| s_auto := auto; s_multi := multi; s_require := []; s_add := []; s_remove := rem;
       s_after := [] |} in
  let s := init_st [sd true false [1]; sd false false []; sd false true []]
                   [] [] 2 [] 10%N [] in
  let mu := {| mu_type := MAdd; mu_called := [1]; mu_auto := false; mu_check := false;
               mu_args := false; mu_qtick := 2 |} in
  refs_ok (sc s) = true /\ parity_ok (clock s) (active s) = true /\
  crashed (fst (run_tx s mu)) = false /\
  parity_ok (clock (fst (run_tx s mu))) (active (fst (run_tx s mu))) = true /\
  active (fst (run_tx s mu)) = [1].
Proof. exact C03C14Proofs.wellformed_step_nonvacuous_lemma. Qed.
Print Assumptions wellformed_step_nonvacuous.

(* (d) at the queue limit the call is refused before anything happens *)
Theorem early_cancel :
  forall fuel s c,
    limit_hit s = true ->
    match ac_kind c with
    | KAdd => negb (mem (exc s) (ac_states c)) || is_active s (exc s) = true
    | KRemove => negb (mem (exc s) (ac_states c)) || negb (is_active s (exc s)) = true
    | KSet | KAddErr => True
    | _ => False
    end ->
    top_api fuel s c = (s, Canceled, true).
Proof. exact C03C14Proofs.early_cancel_lemma. Qed.
Print Assumptions early_cancel.

Example early_cancel_nonvacuous :
  let sd := fun (auto multi : bool) (rem : list nat) =>
    {| s_auto := auto; s_multi := multi; s_require := []; s_add := []; s_remove := rem;
       s_after := [] |} in
  let s := init_st [sd true false [1]; sd false false []; sd false true []]
                   [] [] 2 [] 0%N [] in
  limit_hit s = true /\
  top_api 10 s {| ac_kind := KAdd; ac_states := [1]; ac_args := false |} = (s, Canceled, true).
Proof. exact C03C14Proofs.early_cancel_nonvacuous_lemma. Qed.
Print Assumptions early_cancel_nonvacuous.

(* (e) the trace-level statement: no code 31/32/33/34/36/37 on a fault-free
   run, whatever the fuel, when the schema's references, the Exception index
   and every called state (top-level and scripted) lie inside the schema *)
Theorem calls_codes_run :
  forall fuel sch tp hl ex bs ql acts cs,
    forallb (fun a => match ha_fault a with FNone => true | _ => false end) acts = true ->
    refs_ok sch = true -> ex < length sch ->
    (forall a c x, In a acts -> In c (ha_calls a) -> In x (ac_states c) -> x < length sch) ->
    (forall c x, In c cs -> In x (ac_states c) -> x < length sch) ->
    let tr := run fuel (init_st sch tp hl ex bs ql acts) cs in
    calls_codes cs (tr_calls tr) (map (fun _ => 0%N) sch) 1%N 0 (tr_txs tr) = [].
Proof. exact C03C14Proofs.calls_codes_run_lemma. Qed.
Print Assumptions calls_codes_run.

Theorem c03_codes_run :
  forall fuel sch tp hl ex bs ql acts cs,
    forallb (fun a => match ha_fault a with FNone => true | _ => false end) acts = true ->
    refs_ok sch = true -> ex < length sch ->
    (forall a c x, In a acts -> In c (ha_calls a) -> In x (ac_states c) -> x < length sch) ->
    (forall c x, In c cs -> In x (ac_states c) -> x < length sch) ->
    c03_codes sch false cs (run fuel (init_st sch tp hl ex bs ql acts) cs) = [].
Proof. exact C03C14Proofs.c03_codes_run_lemma. Qed.
Print Assumptions c03_codes_run.

Example c03_codes_run_nonvacuous :
  let sd := fun (auto multi : bool) (rem : list nat) =>
    {| s_auto := auto; s_multi := multi; s_require := []; s_add := []; s_remove := rem;
       s_after := [] |} in
  let sch := [sd true false [1]; sd false false []; sd false true []] in
  let acts := [{| ha_ret := true;
                  ha_calls := [{| ac_kind := KCanAdd; ac_states := [0]; ac_args := false |}];
                  ha_fault := FNone |};
               {| ha_ret := false; ha_calls := []; ha_fault := FNone |}] in
  let cs := [{| ac_kind := KAdd; ac_states := [1]; ac_args := false |};
             {| ac_kind := KCanRemove; ac_states := [1]; ac_args := false |};
             {| ac_kind := KRemove; ac_states := [1]; ac_args := false |};
             {| ac_kind := KSet; ac_states := [1; 2]; ac_args := false |}] in
  let tr := run 100 (init_st sch [] [] 2 [[HEnter 1]] 10%N acts) cs in
  forallb (fun a => match ha_fault a with FNone => true | _ => false end) acts = true /\
  refs_ok sch = true /\
  map co_result (tr_calls tr) = [Executed; Executed; Executed; Canceled] /\
  length (tr_txs tr) = 6 /\
  c03_codes sch false cs tr = [].
Proof. exact C03C14Proofs.c03_codes_run_nonvacuous_lemma. Qed.
Print Assumptions c03_codes_run_nonvacuous.

(* (e) without the range hypothesis on the called states the statement is
   false: a state index outside the schema is reported active without a tick *)
Theorem c03_codes_run_range_refuted :
  exists fuel sch tp hl ex bs ql acts cs,
    forallb (fun a => match ha_fault a with FNone => true | _ => false end) acts = true /\
    refs_ok sch = true /\ ex < length sch /\
    c03_codes sch false cs (run fuel (init_st sch tp hl ex bs ql acts) cs) = [32%N].
Proof. exact C03C14Proofs.c03_codes_run_range_refuted_lemma. Qed.
Print Assumptions c03_codes_run_range_refuted.

(* (e) code 35: with no handlers bound and a non-zero queue limit, CanAdd S /
   CanRemove S directly followed by Add S / Remove S (no Multi state in S, no
   arguments) give the same answer (any fuel) *)
Theorem predicts_codes_run :
  forall fuel sch tp hl ex ql acts cs,
    forallb (fun a => match ha_fault a with FNone => true | _ => false end) acts = true ->
    ql <> 0%N ->
    predicts_codes sch cs (tr_calls (run fuel (init_st sch tp hl ex [] ql acts) cs)) = [].
Proof. exact C03C14Proofs.predicts_codes_run_lemma. Qed.
Print Assumptions predicts_codes_run.

(* with a zero queue limit it is false: CanAdd does not look at the limit, Add does *)
Theorem predicts_codes_run_limit_refuted :
  exists fuel sch tp hl ex acts cs,
    forallb (fun a => match ha_fault a with FNone => true | _ => false end) acts = true /\
    predicts_codes sch cs (tr_calls (run fuel (init_st sch tp hl ex [] 0%N acts) cs)) = [35%N].
Proof. exact C03C14Proofs.predicts_codes_run_limit_refuted_lemma. Qed.
Print Assumptions predicts_codes_run_limit_refuted.

(* (e) complete, for runs without handlers *)
Theorem c03_codes_run_nohandlers :
  forall fuel sch tp hl ex ql acts cs,
    forallb (fun a => match ha_fault a with FNone => true | _ => false end) acts = true ->
    ql <> 0%N ->
    refs_ok sch = true -> ex < length sch ->
    (forall a c x, In a acts -> In c (ha_calls a) -> In x (ac_states c) -> x < length sch) ->
    (forall c x, In c cs -> In x (ac_states c) -> x < length sch) ->
    c03_codes sch true cs (run fuel (init_st sch tp hl ex [] ql acts) cs) = [].
Proof. exact C03C14Proofs.c03_codes_run_nohandlers_lemma. Qed.
Print Assumptions c03_codes_run_nohandlers.

Example predicts_codes_run_nonvacuous :
  let sd := fun (auto multi : bool) (rem : list nat) =>
    {| s_auto := auto; s_multi := multi; s_require := []; s_add := []; s_remove := rem;
       s_after := [] |} in
  let sch := [sd true false [1]; sd false false []; sd false true []] in
  let cs := [{| ac_kind := KCanAdd; ac_states := [1; 1]; ac_args := false |};
             {| ac_kind := KAdd; ac_states := [1; 1]; ac_args := false |};
             {| ac_kind := KCanRemove; ac_states := [1]; ac_args := false |};
             {| ac_kind := KRemove; ac_states := [1]; ac_args := false |}] in
  let tr := run 100 (init_st sch [] [] 2 [] 10%N []) cs in
  map co_result (tr_calls tr) = [Executed; Executed; Executed; Executed] /\
  c03_codes sch true cs tr = [].
Proof. exact C03C14Proofs.predicts_codes_run_nonvacuous_lemma. Qed.
Print Assumptions predicts_codes_run_nonvacuous.
