(* C07 — auto states: property theorems. Nothing but statements closed by
   [exact]. Auxiliary notions (Proofs/C05C07Proofs.v): [fault_free], [good]
   (see Props/C05.v), [no_auto q] (no mutation of q has mu_auto = true),
   [auto_mut cands] (the mutation NewAutoMutation builds: MAdd, called =
   cands, auto, no check, no args, queue tick 0). *)
From Coq Require Import List NArith Bool Arith.
From AMV Require Import Base.ListSet Model.Schema Model.Resolver Model.Machine
  Spec.C01 Spec.C05 Spec.C07.
From AMV Require Proofs.C05C07Proofs.
From AMV Require Proofs.C07Judged.
Import ListNotations.

(* (g) after a triggering transition the queue starts with the auto mutation
   calling exactly the inactive, unblocked Auto states; otherwise no auto
   mutation is added *)
Theorem auto_follows_step : forall s mu s' r rec,
  C05C07Proofs.good s -> run_tx s mu = (s', r) -> txs s' = rec :: txs s ->
  (triggers_auto (health s) rec = true ->
     active s' = tx_target rec /\
     forall c cs, auto_candidates (sc s) (active s') = c :: cs ->
       exists q, queue s' = C05C07Proofs.auto_mut (c :: cs) :: q /\
                 (C05C07Proofs.no_auto (queue s) -> C05C07Proofs.no_auto q)) /\
  ((triggers_auto (health s) rec = false \/ auto_candidates (sc s) (tx_target rec) = []) ->
     C05C07Proofs.no_auto (queue s) -> C05C07Proofs.no_auto (queue s')).
Proof. exact C05C07Proofs.auto_follows_step_lemma. Qed.
Print Assumptions auto_follows_step.

Theorem auto_follows_step_nonvacuous :
  let s := init_st C05C07Proofs.ex_sch2 [] [] 3 [] 1000 [] in
  C05C07Proofs.good s /\ C05C07Proofs.no_auto (queue s) /\
  exists s' r rec, run_tx s (C05C07Proofs.ex_mut [0] false) = (s', r) /\ txs s' = rec :: txs s /\
    triggers_auto (health s) rec = true /\
    auto_candidates (sc s) (active s') = [1; 2] /\
    queue s' = [C05C07Proofs.auto_mut [1; 2]].
Proof. exact C05C07Proofs.auto_follows_step_nonvacuous. Qed.
Print Assumptions auto_follows_step_nonvacuous.

(* (h) an auto mutation never triggers another one *)
Theorem auto_no_chain : forall s mu s' r,
  C05C07Proofs.good s -> mu_auto mu = true -> run_tx s mu = (s', r) ->
  C05C07Proofs.no_auto (queue s) -> C05C07Proofs.no_auto (queue s').
Proof. exact C05C07Proofs.auto_no_chain_lemma. Qed.
Print Assumptions auto_no_chain.

Theorem auto_no_chain_nonvacuous :
  let s := fst (run_tx (init_st C05C07Proofs.ex_sch2 [] [] 3 [] 1000 [])
                       (C05C07Proofs.ex_mut [0] false)) in
  let s1 := set_queue s [] in
  C05C07Proofs.good s1 /\ C05C07Proofs.no_auto (queue s1) /\
  exists s' r, run_tx s1 (C05C07Proofs.auto_mut [1; 2]) = (s', r) /\
    active s' = [1; 2; 0] /\ queue s' = [] /\
    resolve (sc s1) (topo s1) (active s1) MAdd [1; 2] = [1; 2; 0].
Proof. exact C05C07Proofs.auto_no_chain_nonvacuous. Qed.
Print Assumptions auto_no_chain_nonvacuous.

(* (i) on whole runs: the clauses 71 and 72 never fire on a fault-free run
   that did not run out of fuel *)
Theorem follow_codes_ok : forall sch tp hl ex bs ql acts cs fuel,
  C05C07Proofs.fault_free acts ->
  tr_fuel_ok (run fuel (init_st sch tp hl ex bs ql acts) cs) = true ->
  follow_codes sch hl (tr_crashed (run fuel (init_st sch tp hl ex bs ql acts) cs))
                      (tr_txs (run fuel (init_st sch tp hl ex bs ql acts) cs)) = [].
Proof. exact C05C07Proofs.follow_codes_ok_lemma. Qed.
Print Assumptions follow_codes_ok.

Theorem follow_codes_ok_nonvacuous :
  let tr := run 100 (init_st C05C07Proofs.ex_sch2 [] [] 3 [[HEnter 1; HState 2; HAnyState]] 1000 [])
                [C05C07Proofs.ex_add [0]] in
  tr_fuel_ok tr = true /\ map tx_auto (tr_txs tr) = [false; true] /\
  length (tr_hlog tr) = 4 /\
  c07_codes C05C07Proofs.ex_sch2 [] [] tr = [] /\
  c05_codes C05C07Proofs.ex_sch2 [] [[HEnter 1; HState 2; HAnyState]] tr = [].
Proof. exact C05C07Proofs.follow_codes_ok_nonvacuous. Qed.
Print Assumptions follow_codes_ok_nonvacuous.

(* (j) an auto transition in which no negotiation handler vetoes: the machine
   ends up in the re-resolution of the called states that relations accept;
   in particular each of them that the re-resolution accepts is active *)
Theorem judged_one_by_one_step : forall s mu s' r new,
  C05C07Proofs.good s -> mu_auto mu = true -> mu_type mu = MAdd -> mu_check mu = false ->
  run_tx s mu = (s', r) -> hlog s' = new ++ hlog s ->
  (forall h, In h new -> is_final_key (hl_key h) = false -> hl_ret h = true) ->
  let joint := resolve (sc s) (topo s) (active s) MAdd (mu_called mu) in
  let clean := filter (fun x => mem x joint) (mu_called mu) in
  let expected := resolve (sc s) (topo s) (active s) MAdd clean in
  forall x, In x clean -> active s' = expected.
Proof. exact C05C07Proofs.judged_one_by_one_step_lemma. Qed.
Print Assumptions judged_one_by_one_step.

Theorem judged_one_by_one : forall s mu s' r new,
  C05C07Proofs.good s -> mu_auto mu = true -> mu_type mu = MAdd -> mu_check mu = false ->
  run_tx s mu = (s', r) -> hlog s' = new ++ hlog s ->
  (forall h, In h new -> is_final_key (hl_key h) = false -> hl_ret h = true) ->
  let joint := resolve (sc s) (topo s) (active s) MAdd (mu_called mu) in
  let clean := filter (fun x => mem x joint) (mu_called mu) in
  let expected := resolve (sc s) (topo s) (active s) MAdd clean in
  forall x, In x clean -> In x expected -> In x (active s').
Proof. exact C05C07Proofs.judged_one_by_one_lemma. Qed.
Print Assumptions judged_one_by_one.

Theorem judged_one_by_one_step_nonvacuous :
  let s := set_queue (fst (run_tx (init_st C05C07Proofs.ex_sch2 [] [] 3 [[HEnter 1]] 1000 [])
                                  (C05C07Proofs.ex_mut [0] false))) [] in
  C05C07Proofs.good s /\
  exists s' r new, run_tx s (C05C07Proofs.auto_mut [1; 2]) = (s', r) /\
    hlog s' = new ++ hlog s /\
    length new = 1 /\ Forall (fun h => hl_ret h = true) new /\
    filter (fun x => mem x (resolve (sc s) (topo s) (active s) MAdd [1; 2])) [1; 2] = [1; 2] /\
    active s' = [1; 2; 0].
Proof. exact C05C07Proofs.judged_one_by_one_step_nonvacuous. Qed.
Print Assumptions judged_one_by_one_step_nonvacuous.

(* (j) with a veto. Intended (FALSE): in an auto transition a veto by a handler
   that belongs to one Auto state (its Enter / self / state-state handler)
   only rejects that state; the called Auto states that relations accept end
   up active.
   Witness: 0: A (Auto), 1: B (Auto, Require C), 2: C, 3: Exception; one
   binding {AA}; script: AA returns true, then false; calls Add A, Add C.
   The auto mutation after Add C calls B, relations accept B; AA vetoes as the
   last self handler: the whole auto transition is canceled, B stays inactive.
   judged_codes reports nothing: it treats AA as a "global" veto because A is
   not a CALLED state (code 73 is not raised). *)
Theorem auto_last_self_veto_cancels_refuted :
  exists (sch : schema) (order : list nat) (bs : list (list hkey)) (acts : list haction)
         (cs : list api_call) (t : txrec) (h : hlentry),
    let tp := topo_sort sch order in
    let tr := run 100 (init_st sch tp [] 3 bs 1000 acts) cs in
    C05C07Proofs.fault_free acts /\ tr_fuel_ok tr = true /\ tr_crashed tr = false /\
    last (tr_txs tr) t = t /\ In t (tr_txs tr) /\
    tx_auto t = true /\ tx_called t = [1] /\ tx_accepted t = false /\
    slice (tr_hlog tr) (tx_hfrom t) (tx_hto t) = [h] /\
    hl_key h = HSelf 0 /\ hl_ret h = false /\ s_auto (sget sch 0) = true /\
    mem 1 (resolve sch tp (tx_active_before t) MAdd (tx_called t)) = true /\
    map co_active (tr_calls tr) = [[0]; [0; 2]] /\
    judged_codes sch tp (tr_hlog tr) t = [] /\ c07_codes sch tp [] tr = [].
Proof. exact C05C07Proofs.auto_last_self_veto_cancels_refuted_lemma. Qed.
Print Assumptions auto_last_self_veto_cancels_refuted.

(* by contrast a veto of an Enter handler is judged one by one *)
Theorem auto_enter_veto_judged_one_by_one :
  let tr := run 100 (init_st C05C07Proofs.ex_sch2 [] [] 3 [[HEnter 1]] 1000
                       [C05C07Proofs.ex_act false]) [C05C07Proofs.ex_add [0]] in
  map tx_accepted (tr_txs tr) = [true; true] /\
  map co_active (tr_calls tr) = [[2; 0]] /\ c07_codes C05C07Proofs.ex_sch2 [] [] tr = [].
Proof. exact C05C07Proofs.auto_enter_veto_judged_one_by_one. Qed.
Print Assumptions auto_enter_veto_judged_one_by_one.

(* (5) (j) against judged_codes: an auto transition in whose slice no
   negotiation handler returned false passes the clause 73.
   [parity s]: the clock has one tick per schema state and a state is active
   iff its tick is odd (an invariant of the runs, see judged_nv_ok). *)
Theorem judged_codes_step : forall s mu s' r rec,
  C05C07Proofs.good s -> NoDup (active s) -> C05C07Proofs.parity s ->
  (mu_auto mu = true -> mu_type mu = MAdd /\ mu_check mu = false /\
                        forall x, In x (mu_called mu) -> x < length (sc s)) ->
  run_tx s mu = (s', r) -> txs s' = rec :: txs s ->
  C05C07Proofs.no_veto_in (slice (rev (hlog s')) (tx_hfrom rec) (tx_hto rec)) ->
  judged_codes (sc s) (topo s) (rev (hlog s')) rec = [].
Proof. exact C05C07Proofs.judged_codes_step. Qed.
Print Assumptions judged_codes_step.

Theorem parity_step : forall s mu s' r,
  C05C07Proofs.good s -> NoDup (active s) -> C05C07Proofs.parity s ->
  run_tx s mu = (s', r) -> C05C07Proofs.parity s'.
Proof. exact C05C07Proofs.run_tx_parity. Qed.
Print Assumptions parity_step.

(* on whole runs (any fuel) *)
Theorem judged_nv_ok : forall sch tp hl ex bs ql acts cs fuel,
  C05C07Proofs.fault_free acts ->
  forall t, In t (tr_txs (run fuel (init_st sch tp hl ex bs ql acts) cs)) ->
    (forall h, In h (slice (tr_hlog (run fuel (init_st sch tp hl ex bs ql acts) cs))
                           (tx_hfrom t) (tx_hto t)) ->
               is_final_key (hl_key h) = false -> hl_ret h = true) ->
    judged_codes sch tp (tr_hlog (run fuel (init_st sch tp hl ex bs ql acts) cs)) t = [].
Proof. exact C05C07Proofs.judged_nv_ok_lemma. Qed.
Print Assumptions judged_nv_ok.

Theorem judged_nv_ok_nonvacuous :
  let bs := [[HEnter 1; HState 2; HAnyState]] in
  let tr := run 100 (init_st C05C07Proofs.ex_sch2 [] [] 3 bs 1000 []) [C05C07Proofs.ex_add [0]] in
  match nth_error (tr_txs tr) 1 with
  | Some t =>
    tx_auto t = true /\ tx_called t = [1; 2] /\ tx_accepted t = true /\
    map (fun h => (hl_key h, hl_ret h)) (slice (tr_hlog tr) (tx_hfrom t) (tx_hto t))
      = [(HEnter 1, true); (HState 2, true); (HAnyState, true)] /\
    judged_codes C05C07Proofs.ex_sch2 [] (tr_hlog tr) t = []
  | None => False
  end.
Proof. exact C05C07Proofs.judged_nv_ok_nonvacuous. Qed.
Print Assumptions judged_nv_ok_nonvacuous.

(* ------------------------------------------------------------------ *)
(* the judged clause with vetoes (code 73) and the escaping panic      *)
(* (NCrash, code 74): Proofs/C07Judged.v                               *)
(* ------------------------------------------------------------------ *)

(* no panic escapes a fault-free transition; exactly one record is appended *)
Theorem no_crash_step : forall s mu s' r,
  C05C07Proofs.good s -> NoDup (active s) -> run_tx s mu = (s', r) ->
  crashed s' = crashed s /\ exists rec, txs s' = rec :: txs s.
Proof. exact C07Judged.no_crash_step_lemma. Qed.
Print Assumptions no_crash_step.

(* [auto_called_ok s mu]: mu is an Add, not a check, and calls inactive Auto
   states of the schema - what NewAutoMutation builds. Then the clause 73
   holds for the record of the auto mutation, whatever the handlers veto *)
Theorem judged_veto_step : forall s mu s' r rec,
  C05C07Proofs.good s -> NoDup (active s) -> C05C07Proofs.parity s -> mu_auto mu = true ->
  (mu_type mu = MAdd /\ mu_check mu = false /\
   forall x, In x (mu_called mu) ->
     x < length (sc s) /\ s_auto (sget (sc s) x) = true /\ ~ In x (active s)) ->
  run_tx s mu = (s', r) -> txs s' = rec :: txs s ->
  judged_codes (sc s) (topo s) (rev (hlog s')) rec = [].
Proof. exact C07Judged.judged_veto_step_lemma. Qed.
Print Assumptions judged_veto_step.

(* on whole runs: any fuel, any schema, bindings, fault-free script, calls *)
Theorem no_crash_fault_free : forall sch tp hl ex bs ql acts cs fuel,
  C05C07Proofs.fault_free acts ->
  tr_crashed (run fuel (init_st sch tp hl ex bs ql acts) cs) = false /\
  tr_hung (run fuel (init_st sch tp hl ex bs ql acts) cs) = false.
Proof. exact C07Judged.no_crash_fault_free_lemma. Qed.
Print Assumptions no_crash_fault_free.

Theorem judged_codes_run : forall sch tp hl ex bs ql acts cs fuel,
  C05C07Proofs.fault_free acts ->
  forall t, In t (tr_txs (run fuel (init_st sch tp hl ex bs ql acts) cs)) ->
    judged_codes sch tp (tr_hlog (run fuel (init_st sch tp hl ex bs ql acts) cs)) t = [].
Proof. exact C07Judged.judged_codes_run_lemma. Qed.
Print Assumptions judged_codes_run.

(* hence the whole of c07_codes (71, 72, 73, 74) when the fuel sufficed *)
Theorem c07_codes_run : forall sch tp hl ex bs ql acts cs fuel,
  C05C07Proofs.fault_free acts ->
  tr_fuel_ok (run fuel (init_st sch tp hl ex bs ql acts) cs) = true ->
  c07_codes sch tp hl (run fuel (init_st sch tp hl ex bs ql acts) cs) = [].
Proof. exact C07Judged.c07_codes_run_lemma. Qed.
Print Assumptions c07_codes_run.

(* a veto inside an auto transition: BEnter returns false, C is activated *)
Theorem judged_codes_run_nonvacuous :
  let bs := [[HEnter 1; HEnter 2]] in
  let tr := run 100 (init_st C05C07Proofs.ex_sch2 [] [] 3 bs 1000 [C05C07Proofs.ex_act false])
                [C05C07Proofs.ex_add [0]] in
  tr_fuel_ok tr = true /\ tr_crashed tr = false /\
  match nth_error (tr_txs tr) 1 with
  | Some t =>
    tx_auto t = true /\ tx_called t = [1; 2] /\ tx_accepted t = true /\ tx_target t = [2; 0] /\
    map (fun h => (hl_key h, hl_ret h)) (slice (tr_hlog tr) (tx_hfrom t) (tx_hto t))
      = [(HEnter 1, false); (HEnter 2, true)] /\
    judged_codes C05C07Proofs.ex_sch2 [] (tr_hlog tr) t = []
  | None => False
  end /\
  c07_codes C05C07Proofs.ex_sch2 [] [] tr = [].
Proof. exact C07Judged.judged_codes_run_nonvacuous. Qed.
Print Assumptions judged_codes_run_nonvacuous.
