(* C12 - "The machine API is safe for concurrent use: no data races".

   Scope (level: other). Coq does not see the Go memory model of the real
   code. What is proved here is about the lock-discipline model Conc/Locks.v
   (RW-locks, any number of threads, any schedule) and about the hand-abstracted
   access table Spec/C12.v (one entry per public method of am.Machine and of
   rpc.NetworkMachine). The Go race detector is the implementation-side
   observer (harness/cmd/amverif/c12.go, evaluated by Run/EvalC12.v).

   Nothing but statements closed by [exact]. *)
From Coq Require Import List Bool Arith String.
From AMV Require Import Conc.Locks Spec.C12.
From AMV Require Proofs.C12Proofs.
Import ListNotations.
Local Open Scope string_scope.

(* ------------------------------------------------------------ the model *)

(* the boolean race predicate is the indexed one: two different threads whose
   next actions are plain accesses to f, at least one a write *)
Theorem race_on_spec :
  forall (f : field) (c : config), race_on f c = true <-> race_spec f c.
Proof. exact C12Proofs.race_on_spec_lemma. Qed.
Print Assumptions race_on_spec.

(* generic theorem, pairwise form: if every two conflicting accesses of two
   different threads hold a common lock, one of them exclusively, no schedule
   of any number of threads reaches a race *)
Theorem protected_race_free :
  forall (f : field) (ps : list prog),
    all_protected f ps = true ->
    forall sched : list nat, race_on f (exec (init ps) sched) = false.
Proof. exact C12Proofs.protected_race_free_lemma. Qed.
Print Assumptions protected_race_free.

(* generic theorem, guard-map form: for ANY guard map, if every Read of f
   happens while holding one of f's guards and every Write of f while holding
   all of them exclusively, no schedule of any number of threads reaches a
   race *)
Theorem well_locked_race_free :
  forall (G : guard_map) (ps : list prog),
    (forall p f, In p ps -> well_locked G f p = true) ->
    forall (f : field) (sched : list nat), race_on f (exec (init ps) sched) = false.
Proof. exact C12Proofs.well_locked_race_free_lemma. Qed.
Print Assumptions well_locked_race_free.

(* ------------------------------------------------------------ the table *)

(* any number of goroutines, each running any method of the table except the
   culprits (VerifyStates, SetSchema, Import, NM.Tracers, NM.Log), any
   schedule, once the export copy of the state names exists: no race on any
   field *)
Theorem api_warm_race_free :
  forall (names : list string) (f : field) (sched : list nat),
    (forall n, In n names -> is_culprit n = false) ->
    race_on f (exec (init (map (prog_of Warm) names)) sched) = false.
Proof. exact C12Proofs.api_warm_race_free_lemma. Qed.
Print Assumptions api_warm_race_free.

(* R: the full statement is false of the table as the code is:
   forall names f sched, race_on f (exec (init (map (prog_of Cold) names)) sched) = false.
   Two first-time StateNames() calls both write the lazily built copy while
   holding schemaMx only in shared mode (machine.go:3155-3164). *)
Theorem statenames_refuted :
  exists sched,
    race_on stateNamesExport
      (exec (init [prog_of Cold "StateNames"; prog_of Cold "StateNames"]) sched) = true.
Proof. exact C12Proofs.statenames_refuted_lemma. Qed.
Print Assumptions statenames_refuted.

(* under the candidate repairs (corpus/C12/fix_c12_*.diff: stateNamesExport as
   an atomic pointer, VerifyStates / Import / Has / NetworkMachine.Tracers /
   updateClock take the right locks) the statement holds for every method of
   the table except SetSchema, whether or not the copy exists *)
Theorem api_fixed_race_free :
  forall (names : list string) (f : field) (sched : list nat),
    (forall n, In n names -> String.eqb n "SetSchema" = false) ->
    race_on f (exec (init (map (prog_of Fixed) names)) sched) = false.
Proof. exact C12Proofs.api_fixed_race_free_lemma. Qed.
Print Assumptions api_fixed_race_free.

(* the culprits really are: VerifyStates writes stateNames / the export copy
   under schemaMx.RLock *)
Theorem verifystates_refuted :
  (exists sched, race_on stateNames
     (exec (init [prog_of Warm "VerifyStates"; prog_of Warm "Is"]) sched) = true) /\
  (exists sched, race_on stateNamesExport
     (exec (init [prog_of Warm "VerifyStates"; prog_of Warm "StateNames"]) sched) = true).
Proof. exact C12Proofs.verifystates_refuted_lemma. Qed.
Print Assumptions verifystates_refuted.

(* Import writes activeStates / clock under activeStatesMx.RLock *)
Theorem import_refuted :
  (exists sched, race_on activeStates
     (exec (init [prog_of Warm "Import"; prog_of Warm "Is"]) sched) = true) /\
  (exists sched, race_on clock
     (exec (init [prog_of Warm "Import"; prog_of Warm "Tick"]) sched) = true).
Proof. exact C12Proofs.import_refuted_lemma. Qed.
Print Assumptions import_refuted.

(* SetSchema writes stateNames under schemaMx only, while is() / Has() read it
   under activeStatesMx / no lock *)
Theorem setschema_refuted :
  (exists sched, race_on stateNames
     (exec (init [prog_of Warm "SetSchema"; prog_of Warm "Has"]) sched) = true) /\
  (exists sched, race_on stateNames
     (exec (init [prog_of Warm "SetSchema"; prog_of Warm "Is"]) sched) = true).
Proof. exact C12Proofs.setschema_refuted_lemma. Qed.
Print Assumptions setschema_refuted.

(* NetworkMachine: Tracers() reads the tracer list under clockMx while
   TracerBind writes it under tracersMx; updateClock reads and resets
   logEntries without logEntriesLock *)
Theorem netmach_refuted :
  (exists sched, race_on nmTracers
     (exec (init [prog_of Warm "NM.TracerBind"; prog_of Warm "NM.Tracers"]) sched) = true) /\
  (exists sched, race_on nmLogEntries
     (exec (init [prog_of Warm "NM.UpdateClock"; prog_of Warm "NM.Log"]) sched) = true).
Proof. exact C12Proofs.netmach_refuted_lemma. Qed.
Print Assumptions netmach_refuted.

(* the guard discipline [guards] (readers hold one guard, writers all of them
   exclusively) is followed by every entry outside [discipline_exceptions];
   threads drawn from those entries are race free by well_locked_race_free *)
Theorem api_guarded_race_free :
  forall (v : variant) (es : list entry) (f : field) (sched : list nat),
    v <> Cold ->
    (forall e, In e es -> In e (api_table v) /\ breaks_discipline (e_name e) = false) ->
    race_on f (exec (init (map e_prog es)) sched) = false.
Proof. exact C12Proofs.api_guarded_race_free_lemma. Qed.
Print Assumptions api_guarded_race_free.
