(* C12 - "The machine API is safe for concurrent use: no data races".

   Scope (level: other). Coq does not see the Go memory model of the real
   code. What is proved here is about the lock-discipline model Conc/Locks.v
   (RW-locks, any number of threads, any schedule) and about the hand-abstracted
   access table Spec/C12.v (one entry per public method of am.Machine and of
   rpc.NetworkMachine). The Go race detector is the implementation-side
   observer (harness/cmd/amverif/c12.go, evaluated by Run/EvalC12.v).

   Nothing but statements closed by [exact]. *)
From Coq Require Import List Bool Arith String.
From AMV Require Import Conc.Locks Spec.C12.
From AMV Require Proofs.C12Proofs.
Import ListNotations.
Local Open Scope string_scope.

(* ------------------------------------------------------------ the model *)

(* the boolean race predicate is the indexed one: two different threads whose
   next actions are plain accesses to f, at least one a write *)
Theorem race_on_spec :
  forall (f : field) (c : config), race_on f c = true <-> race_spec f c.
Proof. exact C12Proofs.race_on_spec_lemma. Qed.
Print Assumptions race_on_spec.

(* generic theorem, pairwise form: if every two conflicting accesses of two
   different threads hold a common lock, one of them exclusively, no schedule
   of any number of threads reaches a race *)
Theorem protected_race_free :
  forall (f : field) (ps : list prog),
    all_protected f ps = true ->
    forall sched : list nat, race_on f (exec (init ps) sched) = false.
Proof. exact C12Proofs.protected_race_free_lemma. Qed.
Print Assumptions protected_race_free.

(* generic theorem, guard-map form: for ANY guard map, if every Read of f
   happens while holding one of f's guards and every Write of f while holding
   all of them exclusively, no schedule of any number of threads reaches a
   race *)
Theorem well_locked_race_free :
  forall (G : guard_map) (ps : list prog),
    (forall p f, In p ps -> well_locked G f p = true) ->
    forall (f : field) (sched : list nat), race_on f (exec (init ps) sched) = false.
Proof. exact C12Proofs.well_locked_race_free_lemma. Qed.
Print Assumptions well_locked_race_free.

(* ------------------------------------------------------------ the table *)

(* /repo as it is (table variant Cur, HEAD 031458c): any number of goroutines,
   each running any method of the table except VerifyStates, SetSchema and
   Import, any schedule, whether or not the export copy of the state names has
   been built: no race on any field *)
Theorem api_race_free :
  forall (names : list string) (f : field) (sched : list nat),
    (forall n, In n names -> is_culprit n = false) ->
    race_on f (exec (init (map (prog_of Cur) names)) sched) = false.
Proof. exact C12Proofs.api_race_free_lemma. Qed.
Print Assumptions api_race_free.

(* in particular (formerly statenames_refuted, repaired by f998d9b): any number
   of StateNames() calls, first-time or not *)
Theorem statenames_race_free :
  forall (n : nat) (f : field) (sched : list nat),
    race_on f (exec (init (repeat (prog_of Cur "StateNames") n)) sched) = false.
Proof. exact C12Proofs.statenames_race_free_lemma. Qed.
Print Assumptions statenames_race_free.

(* and (formerly netmach_refuted, repaired by f656cf0 and 031458c): any number
   of goroutines over the NetworkMachine entries, the clock feeder included *)
Theorem netmach_race_free :
  forall (names : list string) (f : field) (sched : list nat),
    (forall n, In n names -> String.prefix "NM." n = true) ->
    race_on f (exec (init (map (prog_of Cur) names)) sched) = false.
Proof. exact C12Proofs.netmach_race_free_lemma. Qed.
Print Assumptions netmach_race_free.

(* R: the full statement, without the exclusion of the three culprits,
     forall names f sched, race_on f (exec (init (map (prog_of Cur) names)) sched) = false
   is false of the table as the code is; the next three theorems are the
   witnesses. *)

(* VerifyStates writes stateNames under schemaMx.RLock: races with is() (which
   reads it under activeStatesMx) and with StateNames() (under schemaMx.RLock) *)
Theorem verifystates_refuted :
  (exists sched, race_on stateNames
     (exec (init [prog_of Cur "VerifyStates"; prog_of Cur "Is"]) sched) = true) /\
  (exists sched, race_on stateNames
     (exec (init [prog_of Cur "VerifyStates"; prog_of Cur "StateNames"]) sched) = true).
Proof. exact C12Proofs.verifystates_refuted_lemma. Qed.
Print Assumptions verifystates_refuted.

(* Import writes activeStates / clock under activeStatesMx.RLock *)
Theorem import_refuted :
  (exists sched, race_on activeStates
     (exec (init [prog_of Cur "Import"; prog_of Cur "Is"]) sched) = true) /\
  (exists sched, race_on clock
     (exec (init [prog_of Cur "Import"; prog_of Cur "Tick"]) sched) = true).
Proof. exact C12Proofs.import_refuted_lemma. Qed.
Print Assumptions import_refuted.

(* SetSchema writes stateNames under schemaMx only, while is() / Has() read it
   under activeStatesMx / no lock *)
Theorem setschema_refuted :
  (exists sched, race_on stateNames
     (exec (init [prog_of Cur "SetSchema"; prog_of Cur "Has"]) sched) = true) /\
  (exists sched, race_on stateNames
     (exec (init [prog_of Cur "SetSchema"; prog_of Cur "Is"]) sched) = true).
Proof. exact C12Proofs.setschema_refuted_lemma. Qed.
Print Assumptions setschema_refuted.

(* under the candidate repairs that are not applied (corpus/C12/
   fix_c12_machine.diff: VerifyStates / Import / Has take the right locks) the
   statement holds for every method of the table except SetSchema *)
Theorem api_fixed_race_free :
  forall (names : list string) (f : field) (sched : list nat),
    (forall n, In n names -> String.eqb n "SetSchema" = false) ->
    race_on f (exec (init (map (prog_of Fixed) names)) sched) = false.
Proof. exact C12Proofs.api_fixed_race_free_lemma. Qed.
Print Assumptions api_fixed_race_free.

(* regression statement: on the table of the code BEFORE f998d9b / f656cf0 /
   031458c the three repaired pairs do race (two first-time StateNames() write
   the copy under schemaMx.RLock; Tracers() under clockMx against TracerBind
   under tracersMx; updateClock resets logEntries without logEntriesLock) *)
Theorem legacy_races :
  (exists sched, race_on stateNamesExport
     (exec (init [prog_of Legacy "StateNames"; prog_of Legacy "StateNames"]) sched) = true) /\
  (exists sched, race_on nmTracers
     (exec (init [prog_of Legacy "NM.TracerBind"; prog_of Legacy "NM.Tracers"]) sched) = true) /\
  (exists sched, race_on nmLogEntries
     (exec (init [prog_of Legacy "NM.UpdateClock"; prog_of Legacy "NM.Log"]) sched) = true).
Proof. exact C12Proofs.legacy_races_lemma. Qed.
Print Assumptions legacy_races.

(* the guard discipline [guards] (readers hold one guard, writers all of them
   exclusively) is followed by every entry outside [discipline_exceptions];
   threads drawn from those entries are race free by well_locked_race_free *)
Theorem api_guarded_race_free :
  forall (v : variant) (es : list entry) (f : field) (sched : list nat),
    v <> Legacy ->
    (forall e, In e es -> In e (api_table v) /\ breaks_discipline (e_name e) = false) ->
    race_on f (exec (init (map e_prog es)) sched) = false.
Proof. exact C12Proofs.api_guarded_race_free_lemma. Qed.
Print Assumptions api_guarded_race_free.
