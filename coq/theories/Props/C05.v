(* C05 — handler lifecycle: property theorems. Nothing but statements closed
   by [exact]. The auxiliary notions are defined in Proofs/C05C07Proofs.v:
   [fault_free acts] (no scripted action has a fault), [good s] (the remaining
   script of s is fault-free, the handler loop is alive, nothing hangs),
   [req_after] / [aft_after] (the local definitions of Spec/C05.v
   tx_handler_codes), [srt_before l a b] (a occurs before b in l),
   [srt_sublist] (sub-sequence), [c05_local_codes] (the clauses 51..56 of
   tx_handler_codes). The handler log [hlog] is newest first: the entries
   appended by one run_tx are [new] with hlog s' = new ++ hlog s, in call
   order [rev new]. *)
From Coq Require Import List NArith Bool Arith.
From AMV Require Import Base.ListSet Model.Schema Model.Resolver Model.Machine
  Spec.C01 Spec.C05 Spec.C07 Spec.C05b Spec.C05d Spec.C05e.
From AMV Require Proofs.C05C07Proofs.
Import ListNotations.

(* (a) the handlers of one transition run in phase order *)
Theorem phase_order_step : forall s mu s' r new,
  C05C07Proofs.good s -> run_tx s mu = (s', r) -> hlog s' = new ++ hlog s ->
  nondecreasing (map (fun h => phase_rank (hl_key h)) (rev new)) = true.
Proof. exact C05C07Proofs.phase_order_step_lemma. Qed.
Print Assumptions phase_order_step.

(* (b) negotiation handlers see the machine as it was before the transition *)
Theorem negotiation_sees_before_step : forall s mu s' r new,
  C05C07Proofs.good s -> run_tx s mu = (s', r) -> hlog s' = new ++ hlog s ->
  forall h, In h new -> is_final_key (hl_key h) = false ->
    hl_active h = active s /\ hl_clock h = clock s.
Proof. exact C05C07Proofs.negotiation_sees_before_step_lemma. Qed.
Print Assumptions negotiation_sees_before_step.

(* (b) final handlers see the applied target and the clock right after
   setActiveStates, which are also the machine's at the end of the step *)
Theorem finals_see_after_step : forall s mu s' r new rec,
  C05C07Proofs.good s -> run_tx s mu = (s', r) -> hlog s' = new ++ hlog s ->
  txs s' = rec :: txs s ->
  forall h, In h new -> is_final_key (hl_key h) = true ->
    hl_active h = tx_target rec /\ hl_clock h = tx_after rec /\
    active s' = tx_target rec /\ clock s' = tx_after rec /\
    tx_after rec = set_active_clock (sc s) (clock s) (active s) (tx_called rec) (tx_target rec).
Proof. exact C05C07Proofs.finals_see_after_step_lemma. Qed.
Print Assumptions finals_see_after_step.

(* (c) a veto is the last handler call of a non-auto transition; nothing is applied *)
Theorem veto_stops_step : forall s mu s' r new,
  C05C07Proofs.good s -> mu_auto mu = false -> run_tx s mu = (s', r) ->
  hlog s' = new ++ hlog s ->
  forall h, In h new -> is_final_key (hl_key h) = false -> hl_ret h = false ->
    (exists rest, new = h :: rest) /\
    clock s' = clock s /\ active s' = active s /\
    exists rec, txs s' = rec :: txs s /\ tx_accepted rec = false /\
                tx_after rec = tx_before rec.
Proof. exact C05C07Proofs.veto_stops_step_lemma. Qed.
Print Assumptions veto_stops_step.

(* (d) final handlers: once per changed state per binding, and only when applied *)
Theorem finals_once_step : forall s mu s' r new rec,
  C05C07Proofs.good s -> NoDup (active s) -> run_tx s mu = (s', r) ->
  hlog s' = new ++ hlog s -> txs s' = rec :: txs s ->
  (tx_accepted rec && negb (tx_check rec) = true ->
   forall i x,
     count_key (rev new) (HEnd x) i
       = (if existsb (hkey_eqb (HEnd x)) (nth i (bindings s) []) && mem x (expected_exits rec)
          then 1 else 0) /\
     count_key (rev new) (HState x) i
       = (if existsb (hkey_eqb (HState x)) (nth i (bindings s) [])
             && mem x (expected_enters (sc s) rec)
          then 1 else 0)) /\
  (tx_accepted rec && negb (tx_check rec) = false ->
   forall h, In h new -> is_final_key (hl_key h) = false).
Proof. exact C05C07Proofs.finals_once_step_lemma. Qed.
Print Assumptions finals_once_step.

(* the hypothesis NoDup (active s) of (d) is an invariant *)
Theorem active_nodup_step : forall s mu s' r,
  C05C07Proofs.good s -> NoDup (active s) -> run_tx s mu = (s', r) -> NoDup (active s').
Proof. exact C05C07Proofs.run_tx_NoDup_active. Qed.
Print Assumptions active_nodup_step.

(* non-vacuity of (a), (b), (d): Add B (Remove A) from {C, A}, two bindings *)
Theorem phase_order_step_nonvacuous :
  C05C07Proofs.good (C05C07Proofs.ex_st []) /\ NoDup (active (C05C07Proofs.ex_st [])) /\
  exists s' r new,
    run_tx (C05C07Proofs.ex_st []) (C05C07Proofs.ex_mut [1] false) = (s', r) /\
    hlog s' = new ++ hlog (C05C07Proofs.ex_st []) /\
    map (fun h => phase_rank (hl_key h)) (rev new) = [0; 1; 2; 2; 3; 3; 4; 5] /\
    map hl_active (rev new) = [[2; 0]; [2; 0]; [2; 0]; [2; 0]; [1; 2]; [1; 2]; [1; 2]; [1; 2]] /\
    active (C05C07Proofs.ex_st []) = [2; 0] /\ active s' = [1; 2] /\
    count_key (rev new) (HEnd 0) 0 = 1 /\ count_key (rev new) (HEnd 0) 1 = 1 /\
    count_key (rev new) (HState 1) 0 = 1 /\ count_key (rev new) (HState 1) 1 = 0.
Proof. exact C05C07Proofs.phase_order_step_nonvacuous. Qed.
Print Assumptions phase_order_step_nonvacuous.

(* non-vacuity of (c): the Enter handler of B vetoes *)
Theorem veto_stops_step_nonvacuous :
  let s := C05C07Proofs.ex_st [C05C07Proofs.ex_act true; C05C07Proofs.ex_act false] in
  C05C07Proofs.good s /\
  exists s' r h rest rec, run_tx s (C05C07Proofs.ex_mut [1] false) = (s', r) /\
    hlog s' = (h :: rest) ++ hlog s /\ length rest = 1 /\
    hl_key h = HEnter 1 /\ hl_ret h = false /\
    txs s' = rec :: txs s /\ tx_accepted rec = false /\ active s' = active s.
Proof. exact C05C07Proofs.veto_stops_step_nonvacuous. Qed.
Print Assumptions veto_stops_step_nonvacuous.

(* (a)-(d) on whole runs: the clauses 51 .. 56 of tx_handler_codes never fire
   on a fault-free run (any fuel, any calls) *)
Theorem c05_local_ok : forall sch tp hl ex bs ql acts cs fuel,
  C05C07Proofs.fault_free acts ->
  forall t, In t (tr_txs (run fuel (init_st sch tp hl ex bs ql acts) cs)) ->
    C05C07Proofs.c05_local_codes sch bs
      (tr_hlog (run fuel (init_st sch tp hl ex bs ql acts) cs)) t = [].
Proof. exact C05C07Proofs.c05_local_ok_lemma. Qed.
Print Assumptions c05_local_ok.

Theorem tx_handler_codes_split : forall sc topo bs hlog t,
  tx_handler_codes sc topo bs hlog t
  = C05C07Proofs.c05_local_codes sc bs hlog t ++ C05C07Proofs.c05_order_codes sc topo hlog t.
Proof. exact C05C07Proofs.tx_handler_codes_split. Qed.
Print Assumptions tx_handler_codes_split.

Theorem c05_codes_only_order : forall sch tp tp' hl ex bs ql acts cs fuel,
  C05C07Proofs.fault_free acts ->
  forall c, In c (c05_codes sch tp' bs (run fuel (init_st sch tp hl ex bs ql acts) cs)) ->
    c = 57%N \/ c = 580%N \/ c = 581%N.
Proof. exact C05C07Proofs.c05_codes_only_order_lemma. Qed.
Print Assumptions c05_codes_only_order.

(* (e) sort_states puts every state after the states it Requires, unless an
   After relation says the contrary: the req_after clause *)
Theorem order_respects_require : forall (sc : schema) (order l : list nat),
  require_acyclic sc = true ->
  (forall x, x < length sc -> In x order) ->
  order_violations (C05C07Proofs.req_after sc) (sort_states sc (topo_sort sc order) l) = [].
Proof. exact C05C07Proofs.order_respects_require_lemma. Qed.
Print Assumptions order_respects_require.

Theorem order_respects_require_sublist : forall (sc : schema) (order l l' : list nat),
  require_acyclic sc = true ->
  (forall x, x < length sc -> In x order) ->
  C05C07Proofs.srt_sublist l' (sort_states sc (topo_sort sc order) l) ->
  order_violations (C05C07Proofs.req_after sc) l' = [].
Proof. exact C05C07Proofs.order_respects_require_sublist_lemma. Qed.
Print Assumptions order_respects_require_sublist.

Theorem order_respects_require_nonvacuous :
  let sc := [C05C07Proofs.srt_mk [] []; C05C07Proofs.srt_mk [0] []; C05C07Proofs.srt_mk [1] []] in
  let order := [0; 1; 2] in
  let l := [2; 0; 1] in
  require_acyclic sc = true /\
  (forall x, x < length sc -> In x order) /\
  topo_sort sc order = [0; 1; 2] /\
  sort_states sc (topo_sort sc order) l = [0; 1; 2] /\
  C05C07Proofs.req_after sc 2 1 = true /\ C05C07Proofs.req_after sc 1 0 = true /\
  order_violations (C05C07Proofs.req_after sc) l <> [] /\
  order_violations (C05C07Proofs.req_after sc) (sort_states sc (topo_sort sc order) l) = [].
Proof. exact C05C07Proofs.order_respects_require_nonvacuous. Qed.
Print Assumptions order_respects_require_nonvacuous.

(* (e) on whole runs: with the topology of an acyclic Require graph, code 57
   never fires either: a fault-free run can only violate After order *)
Theorem c05_codes_only_after : forall sch order tp' hl ex bs ql acts cs fuel,
  C05C07Proofs.fault_free acts -> require_acyclic sch = true ->
  (forall x, x < length sch -> In x order) ->
  forall c,
    In c (c05_codes sch tp' bs
            (run fuel (init_st sch (topo_sort sch order) hl ex bs ql acts) cs)) ->
    c = 580%N \/ c = 581%N.
Proof. exact C05C07Proofs.c05_codes_only_after_lemma. Qed.
Print Assumptions c05_codes_only_after.

Theorem c05_codes_only_after_nonvacuous :
  let sch := [C05C07Proofs.srt_mk [1] []; C05C07Proofs.srt_mk [2] []; C05C07Proofs.srt_mk [] [];
              C05C07Proofs.srt_mk [] []] in
  let order := [0; 1; 2; 3] in
  let bs := [[HEnter 0; HEnter 1; HEnter 2; HState 0; HState 1; HState 2]] in
  let tr := run 100 (init_st sch (topo_sort sch order) [] 3 bs 1000 [])
                [C05C07Proofs.ex_add [0; 1; 2]] in
  require_acyclic sch = true /\ (forall x, x < length sch -> In x order) /\
  topo_sort sch order = [2; 1; 0] /\
  map hl_key (tr_hlog tr) = [HEnter 2; HEnter 1; HEnter 0; HState 2; HState 1; HState 0] /\
  c05_codes sch (topo_sort sch order) bs tr = [].
Proof. exact C05C07Proofs.c05_codes_only_after_nonvacuous. Qed.
Print Assumptions c05_codes_only_after_nonvacuous.

(* (f) intended (FALSE: the stable insertion sort only compares neighbours and
   the After comparator is not transitive):
     forall sc topo l, <the After graph of sc is acyclic> -> NoDup l ->
       order_violations (aft_after sc) (sort_states sc topo l) = []            *)
Theorem order_respects_after_refuted :
  exists (sc : schema) (topo l : list nat),
    refs_ok sc = true /\
    forallb (fun x => negb (mem x (rel_closure (length sc) (fun y => s_after (sget sc y))
                                               (s_after (sget sc x))))) (all_states sc) = true /\
    NoDup l /\
    sort_states sc topo l = [0; 2; 1] /\
    (exists a b, C05C07Proofs.srt_before (sort_states sc topo l) a b /\
                 mem b (s_after (sget sc a)) = true /\ C05C07Proofs.aft_after sc a b = true) /\
    order_violations (C05C07Proofs.aft_after sc) (sort_states sc topo l) = [(0, 1)].
Proof. exact C05C07Proofs.order_respects_after_refuted_lemma. Qed.
Print Assumptions order_respects_after_refuted.

(* the same on a fault-free run: code 581 twice for one Add of [0; 2; 1] *)
Theorem order_respects_after_trace_refuted :
  exists (sch : schema) (order : list nat) (bs : list (list hkey)) (cs : list api_call),
    let tp := topo_sort sch order in
    let tr := run 100 (init_st sch tp [] 3 bs 1000 []) cs in
    refs_ok sch = true /\
    forallb (fun x => negb (mem x (rel_closure (length sch) (fun y => s_after (sget sch y))
                                               (s_after (sget sch x))))) (all_states sch) = true /\
    tr_fuel_ok tr = true /\
    map tx_target (tr_txs tr) = [[0; 2; 1]] /\
    map hl_key (tr_hlog tr) = [HEnter 0; HEnter 2; HEnter 1; HState 0; HState 2; HState 1] /\
    c05_codes sch tp bs tr = [581%N; 581%N].
Proof. exact C05C07Proofs.order_respects_after_trace_refuted_lemma. Qed.
Print Assumptions order_respects_after_trace_refuted.

(* (f) partial: two ADJACENT states of a sorted list never violate After (as
   counted by the aft_after clause) - any schema, topology and input list *)
Theorem order_respects_after_adjacent_partial :
  forall (sc : schema) (topo l l1 l2 : list nat) (a b : nat),
    sort_states sc topo l = l1 ++ a :: b :: l2 -> C05C07Proofs.aft_after sc a b = false.
Proof. exact C05C07Proofs.order_respects_after_adjacent_partial_lemma. Qed.
Print Assumptions order_respects_after_adjacent_partial.

Theorem order_respects_after_adjacent_in_partial :
  forall (sc : schema) (topo l : list nat) (a b : nat),
    In a (sort_states sc topo l) ->
    adjacent_in (sort_states sc topo l) a b = true -> C05C07Proofs.aft_after sc a b = false.
Proof. exact C05C07Proofs.order_respects_after_adjacent_in_partial_lemma. Qed.
Print Assumptions order_respects_after_adjacent_in_partial.

(* for any comparator: what Go's insertion sort guarantees for neighbours *)
Theorem insertion_sort_adjacent : forall A (less : A -> A -> bool) l l1 a b l2,
  go_insertion_sort less l = l1 ++ a :: b :: l2 ->
  less b a = false \/ (less a b = true /\ C05C07Proofs.srt_before l b a).
Proof. exact C05C07Proofs.srt_gis_adjacent. Qed.
Print Assumptions insertion_sort_adjacent.

Theorem order_respects_after_adjacent_partial_nonvacuous :
  let sc := [C05C07Proofs.srt_mk [] [1]; C05C07Proofs.srt_mk [] [2]; C05C07Proofs.srt_mk [] []] in
  sort_states sc [] [0; 1; 2] = [] ++ 1 :: 0 :: [2] /\
  C05C07Proofs.aft_after sc 0 1 = true /\ C05C07Proofs.aft_after sc 1 0 = false.
Proof. exact C05C07Proofs.order_respects_after_adjacent_partial_nonvacuous. Qed.
Print Assumptions order_respects_after_adjacent_partial_nonvacuous.

(* ------------------------------------------------------------------ *)
(* Spec/C05b.v: every bound negotiation handler of an applied          *)
(* transition is consulted exactly once per binding (code 59)          *)
(* ------------------------------------------------------------------ *)

(* (1) non-auto mutations *)
Theorem consulted_step : forall s mu s' r rec,
  C05C07Proofs.good s -> NoDup (active s) -> mu_auto mu = false ->
  run_tx s mu = (s', r) -> txs s' = rec :: txs s ->
  tx_accepted rec && negb (tx_check rec) = true ->
  consulted_codes (sc s) (topo s) (bindings s) (rev (hlog s')) rec = [].
Proof. exact C05C07Proofs.consulted_step_nonauto_lemma. Qed.
Print Assumptions consulted_step.

(* the counting statement behind it (auto and non-auto): every key of
   expected_negotiation is logged exactly once for each binding defining it,
   never for the others *)
Theorem consulted_expected_step : forall s mu s' r rec new,
  C05C07Proofs.good s -> NoDup (active s) -> (mu_auto mu = true -> mu_type mu = MAdd) ->
  run_tx s mu = (s', r) -> hlog s' = new ++ hlog s -> txs s' = rec :: txs s ->
  tx_accepted rec && negb (tx_check rec) = true ->
  forall k, In k (expected_negotiation (sc s) (topo s) (rev new) rec) ->
  forall i, count_key (rev new) k i
            = if existsb (hkey_eqb k) (nth i (bindings s) []) then 1 else 0.
Proof. exact C05C07Proofs.consulted_expected_step. Qed.
Print Assumptions consulted_expected_step.

(* (2) auto mutations (always MAdd): the clause of consulted_codes for auto
   records holds as it stands in the model - every called Auto state of the
   first resolution that was not rejected by its own handlers had its Enter
   and state-state handlers consulted once per binding *)
Theorem consulted_step_auto : forall s mu s' r rec,
  C05C07Proofs.good s -> NoDup (active s) -> mu_auto mu = true -> mu_type mu = MAdd ->
  run_tx s mu = (s', r) -> txs s' = rec :: txs s ->
  consulted_codes (sc s) (topo s) (bindings s) (rev (hlog s')) rec = [].
Proof. exact C05C07Proofs.consulted_step_auto_lemma. Qed.
Print Assumptions consulted_step_auto.

(* on whole runs (any fuel): code 59 never fires, for auto records either *)
Theorem consulted_ok : forall sch tp hl ex bs ql acts cs fuel,
  C05C07Proofs.fault_free acts ->
  forall t, In t (tr_txs (run fuel (init_st sch tp hl ex bs ql acts) cs)) ->
    consulted_codes sch tp bs (tr_hlog (run fuel (init_st sch tp hl ex bs ql acts) cs)) t = [].
Proof. exact C05C07Proofs.consulted_ok_lemma. Qed.
Print Assumptions consulted_ok.

Theorem consulted_nonauto_ok : forall sch tp hl ex bs ql acts cs fuel,
  C05C07Proofs.fault_free acts ->
  flat_map (consulted_codes sch tp bs (tr_hlog (run fuel (init_st sch tp hl ex bs ql acts) cs)))
           (filter (fun t => negb (tx_auto t))
                   (tr_txs (run fuel (init_st sch tp hl ex bs ql acts) cs))) = [].
Proof. exact C05C07Proofs.consulted_nonauto_ok_lemma. Qed.
Print Assumptions consulted_nonauto_ok.

Theorem consulted_all_ok : forall sch tp hl ex bs ql acts cs fuel,
  C05C07Proofs.fault_free acts ->
  flat_map (consulted_codes sch tp bs (tr_hlog (run fuel (init_st sch tp hl ex bs ql acts) cs)))
           (tr_txs (run fuel (init_st sch tp hl ex bs ql acts) cs)) = [].
Proof. exact C05C07Proofs.consulted_all_ok_lemma. Qed.
Print Assumptions consulted_all_ok.

Theorem consulted_ok_nonvacuous :
  let bs := [[HExit 0; HEnter 1; HTrans 0 1; HTrans 2 1; HEnter 2]; [HEnter 1; HTrans 0 2]] in
  let tr := run 100 (init_st C05C07Proofs.ex_sch [] [] 3 bs 1000 [])
                [C05C07Proofs.ex_add [0]; C05C07Proofs.ex_add [1]] in
  tr_fuel_ok tr = true /\ map tx_auto (tr_txs tr) = [false; true; false] /\
  map tx_accepted (tr_txs tr) = [true; true; true] /\
  map (fun h => (hl_key h, hl_binding h)) (tr_hlog tr)
    = [(HEnter 2, 0); (HTrans 0 2, 1); (HExit 0, 0); (HEnter 1, 0); (HEnter 1, 1);
       (HTrans 2 1, 0); (HTrans 0 1, 0); (HTrans 0 2, 1)] /\
  c05b_codes C05C07Proofs.ex_sch [] bs tr = [].
Proof. exact C05C07Proofs.consulted_ok_nonvacuous. Qed.
Print Assumptions consulted_ok_nonvacuous.

(* (3) the known defects of partial auto acceptance.
   Intended (FALSE): an auto transition only activates states whose bound
   Enter / state-state handlers were consulted (code 591), and never a called
   state whose own handler returned false (code 592). *)
Theorem reresolved_refuted :
  exists (sch : schema) (order : list nat) (bs : list (list hkey)) (acts : list haction)
         (cs : list api_call),
    let tp := topo_sort sch order in
    let tr := run 100 (init_st sch tp [] 4 bs 1000 acts) cs in
    C05C07Proofs.fault_free acts /\ tr_fuel_ok tr = true /\ tr_crashed tr = false /\
    map tx_auto (tr_txs tr) = [false; true] /\ map tx_target (tr_txs tr) = [[3]; [0; 3; 2]] /\
    map (fun h => (hl_key h, hl_ret h)) (tr_hlog tr) = [(HEnter 1, false)] /\
    flat_map (reresolved_codes sch tp bs (tr_hlog tr)) (tr_txs tr) = [591%N] /\
    c05b_codes sch tp bs tr = [591%N].
Proof. exact C05C07Proofs.reresolved_refuted_lemma. Qed.
Print Assumptions reresolved_refuted.

Theorem vetoed_active_refuted :
  exists (sch : schema) (order : list nat) (bs : list (list hkey)) (acts : list haction)
         (cs : list api_call),
    let tp := topo_sort sch order in
    let tr := run 100 (init_st sch tp [] 3 bs 1000 acts) cs in
    C05C07Proofs.fault_free acts /\ tr_fuel_ok tr = true /\ tr_crashed tr = false /\
    map tx_auto (tr_txs tr) = [false; true] /\ map tx_target (tr_txs tr) = [[2]; [0; 2; 1]] /\
    map (fun h => (hl_key h, hl_ret h)) (tr_hlog tr) = [(HEnter 1, false)] /\
    map co_active (tr_calls tr) = [[0; 2; 1]] /\
    flat_map (vetoed_active_codes (tr_hlog tr)) (tr_txs tr) = [592%N] /\
    c05b_codes sch tp bs tr = [592%N].
Proof. exact C05C07Proofs.vetoed_active_refuted_lemma. Qed.
Print Assumptions vetoed_active_refuted.

(* ------------------------------------------------------------------ *)
(* Spec/C05d.v: bindings detached while an event is dispatched         *)
(* ------------------------------------------------------------------ *)

(* one negotiation event over a snapshot: the bindings of a prefix of the
   snapshot are called, each once, in order; the whole snapshot unless a veto
   stops it (then the vetoing binding is the last one called); what stays
   bound is what none of the called bindings detached *)
Theorem neg_dispatch_spec : forall h d veto snap bound cs b v,
  neg_dispatch h d veto snap bound = (cs, b, v) ->
  exists pre post, snap = pre ++ post /\ cs = map (fun i => (i, h)) pre /\
    b = C05C07Proofs.still_bound d pre bound /\
    (v = false -> post = [] /\ forallb (fun i => negb (mem i veto)) pre = true) /\
    (v = true -> exists pre' i, pre = pre' ++ [i] /\ mem i veto = true /\
                  forallb (fun i => negb (mem i veto)) pre' = true).
Proof. exact C05C07Proofs.neg_dispatch_spec. Qed.
Print Assumptions neg_dispatch_spec.

Theorem detach_snapshot_semantics : forall (k : dcase) cs r1 r2,
  expected_calls k = (cs, r1, r2) ->
  exists pre post,
    seq 0 (d_k k) = pre ++ post /\
    cs = map (fun i => (i, 0)) pre
         ++ (if r1 then map (fun i => (i, 1))
                            (C05C07Proofs.still_bound (d_detach k) pre (seq 0 (d_k k))) else [])
         ++ map (fun i => (i, 2)) (C05C07Proofs.still_bound (d_detach k) pre (seq 0 (d_k k)))
         ++ map (fun i => (i, 3)) (C05C07Proofs.still_bound (d_detach k) pre (seq 0 (d_k k))) /\
    r2 = true /\
    (r1 = true -> post = [] /\ forallb (fun i => negb (mem i (d_veto k))) pre = true) /\
    (r1 = false -> exists pre' i, pre = pre' ++ [i] /\ mem i (d_veto k) = true /\
                     forallb (fun i => negb (mem i (d_veto k))) pre' = true).
Proof. exact C05C07Proofs.detach_snapshot_semantics_lemma. Qed.
Print Assumptions detach_snapshot_semantics.

(* at most once per (binding, handler); exactly once for the negotiation event
   unless vetoed; a binding detached by a called handler sees no later event *)
Theorem detach_calls_properties : forall (k : dcase) cs r1 r2,
  expected_calls k = (cs, r1, r2) ->
  NoDup cs /\
  (r1 = true -> forall i, i < d_k k -> In (i, 0) cs) /\
  (forall i j h, In (i, 0) cs -> In (i, j) (d_detach k) -> h <> 0 -> ~ In (j, h) cs) /\
  (forall i h, In (i, h) cs -> i < d_k k /\ h <= 3).
Proof. exact C05C07Proofs.detach_calls_properties_lemma. Qed.
Print Assumptions detach_calls_properties.

Theorem detach_snapshot_semantics_nonvacuous :
  let k := {| d_k := 4; d_detach := [(0, 2); (1, 3); (2, 1)]; d_veto := []; o_dcalls := [];
              o_res1 := true; o_res2 := true |} in
  expected_calls k
  = ([(0, 0); (1, 0); (2, 0); (3, 0); (0, 1); (0, 2); (0, 3)], true, true) /\
  expected_calls {| d_k := 3; d_detach := [(0, 2)]; d_veto := [1]; o_dcalls := [];
                    o_res1 := true; o_res2 := true |}
  = ([(0, 0); (1, 0); (0, 2); (1, 2); (0, 3); (1, 3)], false, true).
Proof. exact C05C07Proofs.detach_snapshot_semantics_nonvacuous. Qed.
Print Assumptions detach_snapshot_semantics_nonvacuous.

(* ------------------------------------------------------------------ *)
(* Spec/C05e.v (code 550): final handlers judged on the clocks         *)
(* [parity s]: one tick per schema state, a state is active iff its    *)
(* tick is odd (an invariant of the runs: Props/C07.v parity_step)     *)
(* ------------------------------------------------------------------ *)

(* which ticks one run_tx moves: TimeAfter is the machine's time, only an
   applied transition moves ticks, a moved state that ends active is an
   expected enter (entered, or a called Multi state re-entered), one that ends
   inactive is an expected exit *)
Theorem moved_step_facts : forall s mu s' r rec,
  C05C07Proofs.good s -> NoDup (active s) -> C05C07Proofs.parity s ->
  run_tx s mu = (s', r) -> txs s' = rec :: txs s ->
  tx_mach_after rec = tx_after rec /\
  forall x, In x (moved_states rec) ->
    tx_accepted rec && negb (tx_check rec) = true /\
    (N.odd (nth x (tx_mach_after rec) 0%N) = true -> In x (expected_enters (sc s) rec)) /\
    (N.odd (nth x (tx_mach_after rec) 0%N) = false -> In x (expected_exits rec)).
Proof. exact C05C07Proofs.moved_step_facts. Qed.
Print Assumptions moved_step_facts.

(* the exact tick steps of setActiveStates *)
Theorem set_active_clock_value : forall scm cl prev called target x,
  NoDup prev -> NoDup target -> x < length cl ->
  nth x (set_active_clock scm cl prev called target) 0%N
  = (nth x cl 0
     + (if mem x target
        then (if negb (mem x prev) then 1
              else if mem x called && s_multi (sget scm x) then 2 else 0)
        else 0)
     + (if mem x prev && negb (mem x target) then 1 else 0))%N.
Proof. exact C05C07Proofs.set_active_clock_value. Qed.
Print Assumptions set_active_clock_value.

Theorem moved_codes_step : forall s mu s' r rec,
  C05C07Proofs.good s -> NoDup (active s) -> C05C07Proofs.parity s ->
  run_tx s mu = (s', r) -> txs s' = rec :: txs s ->
  moved_codes (bindings s) (rev (hlog s')) rec = [].
Proof. exact C05C07Proofs.moved_codes_step. Qed.
Print Assumptions moved_codes_step.

(* on whole runs: any fuel, crashed or not *)
Theorem c05e_codes_run : forall sch tp hl ex bs ql acts cs fuel,
  C05C07Proofs.fault_free acts ->
  c05e_codes bs (run fuel (init_st sch tp hl ex bs ql acts) cs) = [].
Proof. exact C05C07Proofs.c05e_codes_run_lemma. Qed.
Print Assumptions c05e_codes_run.

Theorem c05e_codes_run_nonvacuous :
  let sch := [C05C07Proofs.wx_mk false false [] []; C05C07Proofs.wx_mk false false [] [0];
              C05C07Proofs.wx_mk false true [] []; C05C07Proofs.wx_mk false true [] []] in
  let bs := [[HState 2; HEnd 0; HState 1; HState 0; HEnd 2]; [HState 2; HEnd 0]] in
  let tr := run 100 (init_st sch [] [] 3 bs 1000 [])
                [C05C07Proofs.ex_add [0; 2]; C05C07Proofs.ex_add [2; 1]; C05C07Proofs.ex_add [1]] in
  tr_fuel_ok tr = true /\
  map (fun t => (tx_before t, tx_mach_after t, moved_states t)) (tr_txs tr)
    = [([0; 0; 0; 0]%N, [1; 0; 1; 0]%N, [0; 2]);
       ([1; 0; 1; 0]%N, [2; 1; 3; 0]%N, [0; 1; 2]);
       ([2; 1; 3; 0]%N, [2; 1; 3; 0]%N, [])] /\
  map (fun h => (hl_key h, hl_binding h)) (tr_hlog tr)
    = [(HState 0, 0); (HState 2, 0); (HState 2, 1); (HEnd 0, 0); (HEnd 0, 1);
       (HState 2, 0); (HState 2, 1); (HState 1, 0)] /\
  c05e_codes bs tr = [].
Proof. exact C05C07Proofs.c05e_codes_run_nonvacuous. Qed.
Print Assumptions c05e_codes_run_nonvacuous.
