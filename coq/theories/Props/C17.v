(* C17 - "History is a faithful, bounded log; queries and Export/Import mean
   what they say".  Property theorems over Model/History.v (pkg/history as of
   3ac5b4b "history FindLatest judges Activated / Deactivated on the transition itself"), stated with the
   predicates of Spec/C17.v.  Nothing but statements closed by [exact]. *)
From Coq Require Import List NArith ZArith Bool Arith.
From AMV Require Import Base.ListSet Model.History Spec.C17.
From AMV Require Proofs.C17Proofs.
Import ListNotations.

(* records with one MTimeTracked and one MTimeTrackedDiff entry per tracked
   state - what TransitionEnd writes, whatever the rotation did (theorem
   log_well_formed); the in-process store has no other source of records *)
Definition log_wf (c : hcfg) (db : list hrec) : Prop :=
  Forall (fun r => length (r_tracked r) = length (c_tracked c) /\
                   length (r_tracked_diff r) = length (c_tracked c)) db.

(* ---------------------------------------------------------------- NewMemory *)

(* the installed configuration tracks only states the machine knows (whatever
   order ParseStates picks), at least one, and keeps MaxRecords >= 1 - the
   hypothesis of the log theorems.  (Before the ParseStates fix an unknown name
   survived next to a duplicate: corpus/C17/unknown_state_tracked.json.) *)
Theorem new_memory_well_formed :
  forall (n : nat) (order : list nat) (w : rawcfg) (c : hcfg),
    new_memory n order w = Some c ->
    Forall (fun s => s < n) (c_tracked c) /\ c_tracked c <> [] /\ 1 <= c_max c.
Proof. exact C17Proofs.new_memory_wf_lemma. Qed.
Print Assumptions new_memory_well_formed.

(* ---------------------------------------------------------------- matching *)

(* the two loops of TransitionEnd compute matches_spec *)
Theorem matches_closed_form :
  forall (c : hcfg) (tx : htx), matches c tx = matches_spec c tx.
Proof. exact C17Proofs.matches_closed_form_lemma. Qed.
Print Assumptions matches_closed_form.

(* FALSE of the model (and of the code): "a transition is recorded iff it
   satisfies the Called condition AND the Changed condition", i.e.
     forall c tx, matches c tx = matches_doc c tx. *)
Theorem matches_doc_refuted :
  exists (c : hcfg) (tx : htx), matches c tx = true /\ matches_doc c tx = false.
Proof. exact C17Proofs.matches_doc_refuted_lemma. Qed.
Print Assumptions matches_doc_refuted.

(* ... it holds unless a Called list is combined with a Changed ALLOW-list *)
Theorem matches_doc_partial :
  forall (c : hcfg) (tx : htx),
    doc_gap_class c tx = 0%N -> matches c tx = matches_doc c tx.
Proof. exact C17Proofs.matches_doc_partial_lemma. Qed.
Print Assumptions matches_doc_partial.

(* ---------------------------------------------------------------- the log *)

(* every matching transition yields exactly one record, in execution order;
   rotation only ever drops the oldest: the stored log IS the last MaxRecords
   records of the unbounded reference log (Spec.C17.recs) *)
Theorem one_record_per_match_in_order :
  forall (c : hcfg) (txs : list htx),
    1 <= c_max c ->
    run_log c txs = reference_log c matches_spec txs.
Proof. exact C17Proofs.one_record_per_match_in_order_lemma. Qed.
Print Assumptions one_record_per_match_in_order.

(* bounded, exactly: after any history (hence after every transition) the log
   holds min(MaxRecords, number of matching transitions) records *)
Theorem bounded :
  forall (c : hcfg) (txs : list htx),
    1 <= c_max c ->
    length (run_log c txs) = Nat.min (c_max c) (length (filter (matches_spec c) txs))
    /\ length (run_log c txs) <= c_max c.
Proof. exact C17Proofs.bounded_lemma. Qed.
Print Assumptions bounded.

Theorem next_id_counts_matches :
  forall (c : hcfg) (txs : list htx),
    next_id c txs = N.of_nat (S (length (filter (matches_spec c) txs))).
Proof. exact C17Proofs.next_id_lemma. Qed.
Print Assumptions next_id_counts_matches.

(* every stored record carries the time after its own (matching) transition *)
Theorem record_times_true :
  forall (c : hcfg) (txs : list htx) (r : hrec),
    1 <= c_max c -> In r (run_log c txs) ->
    exists tx, In tx txs /\ matches_spec c tx = true /\
      r_tracked r = time_filter (x_after tx) (c_tracked c) /\
      r_sum r = time_sum (x_after tx) /\
      r_tsum r = time_sum (time_filter (x_after tx) (c_tracked c)) /\
      r_mtick r = x_mtick tx /\ r_htime r = x_htime tx /\ r_type r = x_type tx.
Proof. exact C17Proofs.record_times_lemma. Qed.
Print Assumptions record_times_true.

(* the run-time predicates (evaluated on the implementation's observations)
   hold of the model; TimeAfter = machine time is C14's statement *)
Theorem log_predicates_hold :
  forall (c : hcfg) (txs : list htx),
    1 <= c_max c ->
    log_ok c txs (run_log c txs) = true /\
    ((forall tx, In tx txs -> x_after tx = x_mach_after tx) ->
     times_ok c txs (run_log c txs) = true).
Proof. exact C17Proofs.log_predicates_lemma. Qed.
Print Assumptions log_predicates_hold.

Theorem log_well_formed :
  forall (c : hcfg) (txs : list htx), 1 <= c_max c -> log_wf c (run_log c txs).
Proof. exact C17Proofs.run_log_wf. Qed.
Print Assumptions log_well_formed.

(* ---------------------------------------------------------------- queries *)

(* FindLatest never panics on a well-formed log: a state that is not tracked
   would index MTimeTracked with -1 (ValidateQuery rejects the query first),
   and MTimeTrackedDiff is as long as MTimeTracked in every record this backend
   stores (log_well_formed).  (Before eab91e0 a valid Inactive query panicked
   whenever the state's machine index was >= the number of tracked states:
   corpus/C17/find_latest_inactive_panics.json.) *)
Theorem find_latest_never_panics :
  forall (c : hcfg) (db : list hrec) (limit : Z) (q : query),
    log_wf c db -> find_latest c db limit q <> FlPanic.
Proof. exact C17Proofs.find_latest_never_panics_lemma. Qed.
Print Assumptions find_latest_never_panics.

(* the MTimeTrackedDiff half of log_wf is needed since 3ac5b4b: a store with a
   record whose MTimeTrackedDiff is shorter than the tracked list (none is ever
   produced: log_well_formed) would make an Activated query panic *)
Theorem short_diff_panics :
  exists (c : hcfg) (db : list hrec) (q : query),
    validate c q = true /\
    Forall (fun r => length (r_tracked r) = length (c_tracked c)) db /\
    find_latest c db 0 q = FlPanic.
Proof. exact C17Proofs.short_diff_panics_lemma. Qed.
Print Assumptions short_diff_panics.

(* answers are newest first, inside the log, and respect the limit *)
Theorem newest_first :
  forall (c : hcfg) (db : list hrec) (limit : Z) (q : query) (idxs : list nat),
    log_wf c db ->
    find_latest c db limit q = FlOk idxs ->
    newest_first_ok db limit idxs = true.
Proof. exact C17Proofs.newest_first_lemma. Qed.
Print Assumptions newest_first.

(* THE STATE CONDITIONS MEAN WHAT THE QUERY COMMENTS SAY.  For every
   configuration, store, limit and query: an invalid query is an error;
   otherwise the answer is exactly the positions - newest first, cut at the
   limit - of the stored records that satisfy all four state conditions and
   the time conditions, each record judged by itself:
     Active      every listed state active after the transition;
     Activated   active after it and flipped by it (odd MTimeTrackedDiff entry);
     Inactive    every listed state inactive after the transition;
     Deactivated inactive after it and flipped by it.
   (Before eab91e0 no state condition ever rejected a record; before 3ac5b4b
   Activated / Deactivated compared with the previous STORED record: the oldest
   stored record passed for want of one, unrecorded transitions in between gave
   wrong hits and misses - corpus/C17/find_latest_state_filters_noop.json,
   deactivated_oldest_record.json, activated_after_rotation.json,
   activated_unrecorded_between.json.) *)
Theorem find_latest_state_conditions :
  forall (c : hcfg) (db : list hrec) (limit : Z) (q : query),
    log_wf c db ->
    find_latest c db limit q =
      if negb (validate c q) then FlErr
      else FlOk (filter_latest (fun r => state_sat c q r && time_cond_impl c q r) db limit).
Proof. exact C17Proofs.find_latest_state_conditions_lemma. Qed.
Print Assumptions find_latest_state_conditions.

(* the same, spelled out: every returned record satisfies all four state
   conditions and the time conditions ... *)
Theorem find_latest_sound :
  forall (c : hcfg) (db : list hrec) (limit : Z) (q : query) (idxs : list nat) (i : nat),
    log_wf c db -> find_latest c db limit q = FlOk idxs -> In i idxs ->
    exists r, nth_error db i = Some r /\
      forallb (st_active c r) (q_active q) = true /\
      forallb (st_activated c r) (q_activated q) = true /\
      forallb (st_inactive c r) (q_inactive q) = true /\
      forallb (st_deactivated c r) (q_deactivated q) = true /\
      time_cond_impl c q r = true.
Proof. exact C17Proofs.find_latest_sound_lemma. Qed.
Print Assumptions find_latest_sound.

(* ... and every stored record that satisfies all conditions is returned,
   unless the limit was used up by newer records *)
Theorem find_latest_complete :
  forall (c : hcfg) (db : list hrec) (limit : Z) (q : query) (idxs : list nat)
         (i : nat) (r : hrec),
    log_wf c db -> find_latest c db limit q = FlOk idxs ->
    nth_error db i = Some r ->
    state_sat c q r = true -> time_cond_impl c q r = true ->
    In i idxs \/
    ((0 < limit)%Z /\ Z.of_nat (length idxs) = limit /\ forall j, In j idxs -> i < j).
Proof. exact C17Proofs.find_latest_complete_lemma. Qed.
Print Assumptions find_latest_complete.

(* what the conditions say in terms of the recorded transition ALONE, whatever
   else is or is not in the store (rotation, Called/Changed lists, rejected
   transitions): for the record r of transition tx and a tracked state s, with
   b / a = s active before / after tx,
     Active a, Inactive (not a), Activated (not b and a), Deactivated (b and not a).
   In particular a Multi state re-entered in one transition (its tick moves by
   2: active before and after) is Active and neither Activated nor Deactivated;
   likewise a state the transition did not touch. *)
Theorem conditions_judge_the_transition :
  forall (c : hcfg) (txs : list htx) (r : hrec),
    1 <= c_max c -> In r (run_log c txs) ->
    exists tx, In tx txs /\ matches_spec c tx = true /\
      forall s, is_tracked c s = true ->
        let b := N.odd (tick (x_before tx) s) in
        let a := N.odd (tick (x_after tx) s) in
        st_active c r s = a /\ st_inactive c r s = negb a /\
        st_activated c r s = negb b && a /\
        st_deactivated c r s = b && negb a /\
        (tick (x_after tx) s = tick (x_before tx) s + 2 ->
         st_activated c r s = false /\ st_deactivated c r s = false)%N.
Proof. exact C17Proofs.conditions_on_transition_lemma. Qed.
Print Assumptions conditions_judge_the_transition.

(* with scalar / wall-clock ranges and a machine-time range over at most one
   state, the time conditions are the specified ranges too: FindLatest returns
   precisely the records satisfying the query - with or without state
   conditions *)
Theorem find_latest_full_spec :
  forall (c : hcfg) (db : list hrec) (limit : Z) (q : query),
    log_wf c db -> validate c q = true -> mtime_wf q = true ->
    length (t_mstates (q_start q)) <= 1 ->
    find_latest c db limit q = FlOk (find_latest_spec c db limit q).
Proof. exact C17Proofs.find_latest_full_spec_lemma. Qed.
Print Assumptions find_latest_full_spec.

(* FALSE (2:206): the hypothesis on the machine-time range cannot be dropped -
   over several states it is not a per-state range *)
Theorem find_latest_mtime_refuted :
  exists (c : hcfg) (txs : list htx) (q : query),
    validate c q = true /\ states_free q = true /\ mtime_wf q = true /\
    find_latest c (run_log c txs) 0 q = FlOk [2; 1; 0] /\
    find_latest_spec c (run_log c txs) 0 q = [2; 1].
Proof. exact C17Proofs.find_latest_mtime_refuted_lemma. Qed.
Print Assumptions find_latest_mtime_refuted.

(* ---------------------------------------------------------------- *Between *)

(* the helpers answer exactly "the state is tracked and some stored record
   with HTime within [hs,he] satisfies the state condition" - never a panic.
   (Before eab91e0: true as soon as ANY record lay in the window, and a panic
   for InactiveBetween; before 3ac5b4b Activated/Deactivated against the
   previous stored record: corpus/C17/between_ignores_state.json,
   deactivated_oldest_record.json.) *)
Theorem between_exact :
  forall (c : hcfg) (db : list hrec) (kind : N) (s : nat) (hs he : N),
    log_wf c db -> (kind < 4)%N ->
    between c db kind s hs he = Some (between_spec c db kind s hs he).
Proof. exact C17Proofs.between_exact_lemma. Qed.
Print Assumptions between_exact.

Theorem activated_between_spec :
  forall (c : hcfg) (db : list hrec) (s : nat) (hs he : N),
    log_wf c db ->
    between c db 0 s hs he =
      Some (is_tracked c s &&
            existsb (fun r => st_activated c r s && in_range hs he (r_htime r)) db).
Proof. exact C17Proofs.activated_between_lemma. Qed.
Print Assumptions activated_between_spec.

Theorem active_between_spec :
  forall (c : hcfg) (db : list hrec) (s : nat) (hs he : N),
    log_wf c db ->
    between c db 1 s hs he =
      Some (is_tracked c s &&
            existsb (fun r => st_active c r s && in_range hs he (r_htime r)) db).
Proof. exact C17Proofs.active_between_lemma. Qed.
Print Assumptions active_between_spec.

Theorem deactivated_between_spec :
  forall (c : hcfg) (db : list hrec) (s : nat) (hs he : N),
    log_wf c db ->
    between c db 2 s hs he =
      Some (is_tracked c s &&
            existsb (fun r => st_deactivated c r s && in_range hs he (r_htime r)) db).
Proof. exact C17Proofs.deactivated_between_lemma. Qed.
Print Assumptions deactivated_between_spec.

Theorem inactive_between_spec :
  forall (c : hcfg) (db : list hrec) (s : nat) (hs he : N),
    log_wf c db ->
    between c db 3 s hs he =
      Some (is_tracked c s &&
            existsb (fun r => st_inactive c r s && in_range hs he (r_htime r)) db).
Proof. exact C17Proofs.inactive_between_lemma. Qed.
Print Assumptions inactive_between_spec.

(* ---------------------------------------------------------------- Export / Import *)

(* a machine rebuilt with Import from an Export has the same ticks and active
   states and a machine tick one higher; the queue tick is not restored.
   Hypotheses: same state set (any order), no MachineRestored state, and the
   exporting machine's active list agrees with its tick parities (C01). *)
Theorem export_import :
  forall (src dst : emach),
    length (e_names dst) = length (e_names src) ->
    (forall s, In s (e_names src) -> In s (e_names dst)) ->
    (forall s, In s (e_names src) -> s < length (e_clock dst)) ->
    e_has_restored dst = false ->
    (forall s, In s (e_active src) <->
               In s (e_names src) /\ active_tick (tick (e_clock src) s) = true) ->
    exists m', import dst (export src) = IOk m' /\
      mach_time m' = mach_time src /\ e_names m' = e_names src /\
      (forall s, In s (e_names src) -> tick (e_clock m') s = tick (e_clock src) s) /\
      (forall s, In s (e_active m') <-> In s (e_active src)) /\
      e_mtick m' = (e_mtick src + 1)%N /\ e_qtick m' = e_qtick dst /\
      export_import_ok src (IOk m') = true.
Proof. exact C17Proofs.export_import_lemma. Qed.
Print Assumptions export_import.

(* with a MachineRestored state Import does not return *)
Theorem import_restored_hangs :
  forall (src dst : emach),
    length (e_names dst) = length (e_names src) ->
    (forall s, In s (e_names src) -> In s (e_names dst)) ->
    e_has_restored dst = true ->
    import dst (export src) = IHang.
Proof. exact C17Proofs.import_restored_hangs_lemma. Qed.
Print Assumptions import_restored_hangs.

(* ---------------------------------------------------------------- non-vacuity *)

Example rotation_nonvacuous :
  let c := {| c_called := []; c_called_excl := false; c_changed := []; c_changed_excl := false;
              c_rejected := false; c_store_tx := false; c_tracked := [0; 2]; c_max := 2 |} in
  map r_sum (run_log c C17Proofs.w_txs) = [4; 5]%N /\
  map r_rdiff (run_log c C17Proofs.w_txs) = [1; 1]%N /\
  next_id c C17Proofs.w_txs = 6%N.
Proof. vm_compute. repeat split; reflexivity. Qed.

Example time_spec_nonvacuous :
  let c := C17Proofs.w_cfg [0; 2] in
  let q := {| q_active := []; q_activated := []; q_inactive := []; q_deactivated := [];
              q_start := {| t_mstates := [2]; t_mtime := [1]%N; t_htime := 0; t_sum := 2;
                            t_tsum := 0; t_diff := 0; t_tdiff := 0; t_rdiff := 0; t_mtick := 0 |};
              q_end := {| t_mstates := [2]; t_mtime := [1]%N; t_htime := 0; t_sum := 4;
                          t_tsum := 0; t_diff := 0; t_tdiff := 0; t_rdiff := 0; t_mtick := 0 |} |} in
  validate c q = true /\ states_free q = true /\ mtime_wf q = true /\
  find_latest c (run_log c C17Proofs.w_txs) 0 q = FlOk [3; 2] /\
  find_latest c (run_log c C17Proofs.w_txs) 1 q = FlOk [3].
Proof. vm_compute. repeat split; reflexivity. Qed.

Example export_import_nonvacuous :
  let src := {| e_clock := [3; 2; 1]%N; e_active := [2; 0]; e_names := [0; 1; 2];
                e_mtick := 4; e_qtick := 9; e_has_restored := false |} in
  let dst := {| e_clock := [0; 0; 0]%N; e_active := []; e_names := [2; 0; 1];
                e_mtick := 0; e_qtick := 0; e_has_restored := false |} in
  import dst (export src) =
    IOk {| e_clock := [3; 2; 1]%N; e_active := [0; 2]; e_names := [0; 1; 2];
           e_mtick := 5; e_qtick := 0; e_has_restored := false |}.
Proof. vm_compute. reflexivity. Qed.

(* the state conditions select proper, non-empty subsets of the five records of
   Add Sa; Add Sb; Add Sc; Remove Sa; Remove Sb (tracking Sa, Sc) *)
Example state_conditions_nonvacuous :
  let c := C17Proofs.w_cfg [0; 2] in
  let db := run_log c C17Proofs.w_txs in
  let c2 := C17Proofs.w_cfg [2] in
  find_latest c db 0 (C17Proofs.w_query [0] [] [] []) = FlOk [2; 1; 0] /\
  find_latest c db 0 (C17Proofs.w_query [] [2] [] []) = FlOk [2] /\
  find_latest c db 0 (C17Proofs.w_query [] [0] [] []) = FlOk [0] /\
  find_latest c db 0 (C17Proofs.w_query [] [] [0] []) = FlOk [4; 3] /\
  find_latest c db 0 (C17Proofs.w_query [] [] [] [0]) = FlOk [3] /\
  (* Sc was never active: not deactivated by the first record either *)
  find_latest c db 0 (C17Proofs.w_query [] [] [] [2]) = FlOk [] /\
  find_latest c db 0 (C17Proofs.w_query [2] [] [0] []) = FlOk [4; 3] /\
  find_latest c db 1 (C17Proofs.w_query [0] [] [] []) = FlOk [2] /\
  (* Inactive on a state whose machine index (2) is >= the number of tracked states (1) *)
  find_latest c2 (run_log c2 C17Proofs.w_txs) 0 (C17Proofs.w_query [] [] [2] []) = FlOk [1; 0] /\
  (* an untracked state is an error *)
  find_latest c2 (run_log c2 C17Proofs.w_txs) 0 (C17Proofs.w_query [] [] [0] []) = FlErr.
Proof. vm_compute. repeat split; reflexivity. Qed.

(* the oldest stored record after a rotation, and records around unrecorded
   transitions, are judged by their own transition *)
Example own_transition_nonvacuous :
  let c := {| c_called := []; c_called_excl := false; c_changed := []; c_changed_excl := false;
              c_rejected := false; c_store_tx := false; c_tracked := [0; 1; 2]; c_max := 2 |} in
  let db := run_log c (firstn 3 C17Proofs.w_txs) in
  let c' := C17Proofs.w_cfg_changed in
  let db' := run_log c' C17Proofs.w_txs_unrec in
  length db = 2 /\
  find_latest c db 0 (C17Proofs.w_query [] [0] [] []) = FlOk [] /\
  find_latest c db 0 (C17Proofs.w_query [] [1] [] []) = FlOk [0] /\
  length db' = 4 /\
  find_latest c' db' 0 (C17Proofs.w_query [0] [] [] []) = FlOk [2; 1] /\
  find_latest c' db' 0 (C17Proofs.w_query [] [0] [] []) = FlOk [] /\
  find_latest c' db' 0 (C17Proofs.w_query [] [] [] [0]) = FlOk [] /\
  find_latest c' db' 0 (C17Proofs.w_query [] [1] [] []) = FlOk [2; 0].
Proof. vm_compute. repeat split; reflexivity. Qed.

(* a Multi state re-entered in one transition (tick 1 -> 3): Active, not Activated *)
Example multi_reentry_nonvacuous :
  let c := C17Proofs.w_cfg [0] in
  let db := run_log c C17Proofs.w_txs_multi in
  map r_tracked_diff db = [[1]; [2]; [1]]%N /\
  find_latest c db 0 (C17Proofs.w_query [0] [] [] []) = FlOk [1; 0] /\
  find_latest c db 0 (C17Proofs.w_query [] [0] [] []) = FlOk [0] /\
  find_latest c db 0 (C17Proofs.w_query [] [] [] [0]) = FlOk [2] /\
  between c db 0 0 2 2 = Some false /\ between c db 1 0 2 2 = Some true.
Proof. vm_compute. repeat split; reflexivity. Qed.

(* the helpers answer true and false on windows that contain records *)
Example between_nonvacuous :
  let c := C17Proofs.w_cfg [0; 2] in
  let db := run_log c C17Proofs.w_txs in
  let c2 := C17Proofs.w_cfg [2] in
  between c db 0 2 3 3 = Some true /\ between c db 0 2 1 2 = Some false /\
  between c db 0 2 4 5 = Some false /\
  between c db 1 2 3 5 = Some true /\ between c db 1 2 1 2 = Some false /\
  between c db 2 0 4 4 = Some true /\ between c db 2 0 5 5 = Some false /\
  between c db 2 0 1 3 = Some false /\
  (* Sc was never active: not deactivated within the first record's instant *)
  between c db 2 2 1 1 = Some false /\
  between c db 3 0 4 5 = Some true /\ between c db 3 0 1 3 = Some false /\
  between c2 (run_log c2 C17Proofs.w_txs) 3 2 1 2 = Some true /\
  between c db 1 1 1 5 = Some false (* Sb is not tracked *).
Proof. vm_compute. repeat split; reflexivity. Qed.
