(* C17 - "History is a faithful, bounded log; queries and Export/Import mean
   what they say".  Property theorems over Model/History.v, stated with the
   predicates of Spec/C17.v.  Nothing but statements closed by [exact]. *)
From Coq Require Import List NArith ZArith Bool Arith.
From AMV Require Import Base.ListSet Model.History Spec.C17.
From AMV Require Proofs.C17Proofs.
Import ListNotations.

(* records whose MTimeTracked has one entry per tracked state - what
   TransitionEnd writes (theorem log_well_formed) *)
Definition log_wf (c : hcfg) (db : list hrec) : Prop :=
  Forall (fun r => length (r_tracked r) = length (c_tracked c)) db.

(* ---------------------------------------------------------------- NewMemory *)

(* the installed configuration tracks only states the machine knows (whatever
   order ParseStates picks), at least one, and keeps MaxRecords >= 1 - the
   hypothesis of the log theorems.  (Before the ParseStates fix an unknown name
   survived next to a duplicate: corpus/C17/unknown_state_tracked.json.) *)
Theorem new_memory_well_formed :
  forall (n : nat) (order : list nat) (w : rawcfg) (c : hcfg),
    new_memory n order w = Some c ->
    Forall (fun s => s < n) (c_tracked c) /\ c_tracked c <> [] /\ 1 <= c_max c.
Proof. exact C17Proofs.new_memory_wf_lemma. Qed.
Print Assumptions new_memory_well_formed.

(* ---------------------------------------------------------------- matching *)

(* the two loops of TransitionEnd compute matches_spec *)
Theorem matches_closed_form :
  forall (c : hcfg) (tx : htx), matches c tx = matches_spec c tx.
Proof. exact C17Proofs.matches_closed_form_lemma. Qed.
Print Assumptions matches_closed_form.

(* FALSE of the model (and of the code): "a transition is recorded iff it
   satisfies the Called condition AND the Changed condition", i.e.
     forall c tx, matches c tx = matches_doc c tx. *)
Theorem matches_doc_refuted :
  exists (c : hcfg) (tx : htx), matches c tx = true /\ matches_doc c tx = false.
Proof. exact C17Proofs.matches_doc_refuted_lemma. Qed.
Print Assumptions matches_doc_refuted.

(* ... it holds unless a Called list is combined with a Changed ALLOW-list *)
Theorem matches_doc_partial :
  forall (c : hcfg) (tx : htx),
    doc_gap_class c tx = 0%N -> matches c tx = matches_doc c tx.
Proof. exact C17Proofs.matches_doc_partial_lemma. Qed.
Print Assumptions matches_doc_partial.

(* ---------------------------------------------------------------- the log *)

(* every matching transition yields exactly one record, in execution order;
   rotation only ever drops the oldest: the stored log IS the last MaxRecords
   records of the unbounded reference log (Spec.C17.recs) *)
Theorem one_record_per_match_in_order :
  forall (c : hcfg) (txs : list htx),
    1 <= c_max c ->
    run_log c txs = reference_log c matches_spec txs.
Proof. exact C17Proofs.one_record_per_match_in_order_lemma. Qed.
Print Assumptions one_record_per_match_in_order.

(* bounded, exactly: after any history (hence after every transition) the log
   holds min(MaxRecords, number of matching transitions) records *)
Theorem bounded :
  forall (c : hcfg) (txs : list htx),
    1 <= c_max c ->
    length (run_log c txs) = Nat.min (c_max c) (length (filter (matches_spec c) txs))
    /\ length (run_log c txs) <= c_max c.
Proof. exact C17Proofs.bounded_lemma. Qed.
Print Assumptions bounded.

Theorem next_id_counts_matches :
  forall (c : hcfg) (txs : list htx),
    next_id c txs = N.of_nat (S (length (filter (matches_spec c) txs))).
Proof. exact C17Proofs.next_id_lemma. Qed.
Print Assumptions next_id_counts_matches.

(* every stored record carries the time after its own (matching) transition *)
Theorem record_times_true :
  forall (c : hcfg) (txs : list htx) (r : hrec),
    1 <= c_max c -> In r (run_log c txs) ->
    exists tx, In tx txs /\ matches_spec c tx = true /\
      r_tracked r = time_filter (x_after tx) (c_tracked c) /\
      r_sum r = time_sum (x_after tx) /\
      r_tsum r = time_sum (time_filter (x_after tx) (c_tracked c)) /\
      r_mtick r = x_mtick tx /\ r_htime r = x_htime tx /\ r_type r = x_type tx.
Proof. exact C17Proofs.record_times_lemma. Qed.
Print Assumptions record_times_true.

(* the run-time predicates (evaluated on the implementation's observations)
   hold of the model; TimeAfter = machine time is C14's statement *)
Theorem log_predicates_hold :
  forall (c : hcfg) (txs : list htx),
    1 <= c_max c ->
    log_ok c txs (run_log c txs) = true /\
    ((forall tx, In tx txs -> x_after tx = x_mach_after tx) ->
     times_ok c txs (run_log c txs) = true).
Proof. exact C17Proofs.log_predicates_lemma. Qed.
Print Assumptions log_predicates_hold.

Theorem log_well_formed :
  forall (c : hcfg) (txs : list htx), 1 <= c_max c -> log_wf c (run_log c txs).
Proof. exact C17Proofs.run_log_wf. Qed.
Print Assumptions log_well_formed.

(* ---------------------------------------------------------------- queries *)

(* answers are newest first, inside the log, and respect the limit *)
Theorem newest_first :
  forall (c : hcfg) (db : list hrec) (limit : Z) (q : query) (idxs : list nat),
    log_wf c db ->
    find_latest c db limit q = FlOk idxs ->
    newest_first_ok db limit idxs = true.
Proof. exact C17Proofs.newest_first_lemma. Qed.
Print Assumptions newest_first.

(* scalar and wall-clock ranges (and a machine-time range over at most one
   state): FindLatest returns precisely the records satisfying the query *)
Theorem find_latest_time_spec :
  forall (c : hcfg) (db : list hrec) (limit : Z) (q : query),
    log_wf c db -> validate c q = true ->
    states_free q = true -> mtime_wf q = true ->
    length (t_mstates (q_start q)) <= 1 ->
    find_latest c db limit q = FlOk (find_latest_spec c db limit q).
Proof. exact C17Proofs.find_latest_time_spec_lemma. Qed.
Print Assumptions find_latest_time_spec.

(* FALSE of the model (and of the code):
     forall c db limit q, log_wf c db -> validate c q = true ->
       find_latest c db limit q = FlOk (find_latest_spec c db limit q).
   Witness: Add Sa; Add Sb; Add Sc; Remove Sa; Remove Sb, tracking Sa and Sc:
   Active:[Sa] returns all five records, two of them with Sa inactive. *)
Theorem find_latest_states_refuted :
  exists (c : hcfg) (txs : list htx) (q : query),
    validate c q = true /\
    find_latest c (run_log c txs) 0 q = FlOk [4; 3; 2; 1; 0] /\
    find_latest_spec c (run_log c txs) 0 q = [2; 1; 0].
Proof. exact C17Proofs.find_latest_states_refuted_lemma. Qed.
Print Assumptions find_latest_states_refuted.

(* a valid Inactive query can panic (machine index on the tracked slice) *)
Theorem find_latest_inactive_panics :
  exists (c : hcfg) (txs : list htx) (q : query),
    validate c q = true /\ find_latest c (run_log c txs) 0 q = FlPanic.
Proof. exact C17Proofs.find_latest_inactive_panics_lemma. Qed.
Print Assumptions find_latest_inactive_panics.

(* what is true instead: the four state conditions are ignored altogether,
   except that Inactive panics when a state's machine index does not fit *)
Theorem find_latest_states_partial :
  forall (c : hcfg) (db : list hrec) (limit : Z) (q : query),
    log_wf c db ->
    find_latest c db limit q =
      if negb (validate c q) then FlErr
      else if negb (forallb (fun s => s <? length (c_tracked c)) (q_inactive q))
              && negb (is_nil db) then FlPanic
      else find_latest c db limit (strip_states q).
Proof. exact C17Proofs.find_latest_states_partial_lemma. Qed.
Print Assumptions find_latest_states_partial.

(* the machine-time range over several states is not a per-state range *)
Theorem find_latest_mtime_refuted :
  exists (c : hcfg) (txs : list htx) (q : query),
    validate c q = true /\ states_free q = true /\ mtime_wf q = true /\
    find_latest c (run_log c txs) 0 q = FlOk [2; 1; 0] /\
    find_latest_spec c (run_log c txs) 0 q = [2; 1].
Proof. exact C17Proofs.find_latest_mtime_refuted_lemma. Qed.
Print Assumptions find_latest_mtime_refuted.

(* FALSE: forall ..., between c db kind s hs he = Some (between_spec c db kind s hs he) *)
Theorem between_refuted :
  exists (c : hcfg) (txs : list htx) (s : nat) (hs he : N),
    between c (run_log c txs) 0 s hs he = Some true /\
    between_spec c (run_log c txs) 0 s hs he = false.
Proof. exact C17Proofs.between_refuted_lemma. Qed.
Print Assumptions between_refuted.

(* what the helpers do answer: "is there any record in the window" *)
Theorem between_partial :
  forall (c : hcfg) (db : list hrec) (kind : N) (s : nat) (hs he : N),
    log_wf c db -> (kind < 4)%N ->
    between c db kind s hs he =
      if negb (is_tracked c s) then Some false
      else if (kind =? 3)%N && negb (s <? length (c_tracked c)) && negb (is_nil db) then None
      else Some (existsb (fun r => in_range hs he (r_htime r)) db).
Proof. exact C17Proofs.between_partial_lemma. Qed.
Print Assumptions between_partial.

(* ---------------------------------------------------------------- Export / Import *)

(* a machine rebuilt with Import from an Export has the same ticks and active
   states and a machine tick one higher; the queue tick is not restored.
   Hypotheses: same state set (any order), no MachineRestored state, and the
   exporting machine's active list agrees with its tick parities (C01). *)
Theorem export_import :
  forall (src dst : emach),
    length (e_names dst) = length (e_names src) ->
    (forall s, In s (e_names src) -> In s (e_names dst)) ->
    (forall s, In s (e_names src) -> s < length (e_clock dst)) ->
    e_has_restored dst = false ->
    (forall s, In s (e_active src) <->
               In s (e_names src) /\ active_tick (tick (e_clock src) s) = true) ->
    exists m', import dst (export src) = IOk m' /\
      mach_time m' = mach_time src /\ e_names m' = e_names src /\
      (forall s, In s (e_names src) -> tick (e_clock m') s = tick (e_clock src) s) /\
      (forall s, In s (e_active m') <-> In s (e_active src)) /\
      e_mtick m' = (e_mtick src + 1)%N /\ e_qtick m' = e_qtick dst /\
      export_import_ok src (IOk m') = true.
Proof. exact C17Proofs.export_import_lemma. Qed.
Print Assumptions export_import.

(* with a MachineRestored state Import does not return *)
Theorem import_restored_hangs :
  forall (src dst : emach),
    length (e_names dst) = length (e_names src) ->
    (forall s, In s (e_names src) -> In s (e_names dst)) ->
    e_has_restored dst = true ->
    import dst (export src) = IHang.
Proof. exact C17Proofs.import_restored_hangs_lemma. Qed.
Print Assumptions import_restored_hangs.

(* ---------------------------------------------------------------- non-vacuity *)

Example rotation_nonvacuous :
  let c := {| c_called := []; c_called_excl := false; c_changed := []; c_changed_excl := false;
              c_rejected := false; c_store_tx := false; c_tracked := [0; 2]; c_max := 2 |} in
  map r_sum (run_log c C17Proofs.w_txs) = [4; 5]%N /\
  map r_rdiff (run_log c C17Proofs.w_txs) = [1; 1]%N /\
  next_id c C17Proofs.w_txs = 6%N.
Proof. vm_compute. repeat split; reflexivity. Qed.

Example time_spec_nonvacuous :
  let c := C17Proofs.w_cfg [0; 2] in
  let q := {| q_active := []; q_activated := []; q_inactive := []; q_deactivated := [];
              q_start := {| t_mstates := [2]; t_mtime := [1]%N; t_htime := 0; t_sum := 2;
                            t_tsum := 0; t_diff := 0; t_tdiff := 0; t_rdiff := 0; t_mtick := 0 |};
              q_end := {| t_mstates := [2]; t_mtime := [1]%N; t_htime := 0; t_sum := 4;
                          t_tsum := 0; t_diff := 0; t_tdiff := 0; t_rdiff := 0; t_mtick := 0 |} |} in
  validate c q = true /\ states_free q = true /\ mtime_wf q = true /\
  find_latest c (run_log c C17Proofs.w_txs) 0 q = FlOk [3; 2] /\
  find_latest c (run_log c C17Proofs.w_txs) 1 q = FlOk [3].
Proof. vm_compute. repeat split; reflexivity. Qed.

Example export_import_nonvacuous :
  let src := {| e_clock := [3; 2; 1]%N; e_active := [2; 0]; e_names := [0; 1; 2];
                e_mtick := 4; e_qtick := 9; e_has_restored := false |} in
  let dst := {| e_clock := [0; 0; 0]%N; e_active := []; e_names := [2; 0; 1];
                e_mtick := 0; e_qtick := 0; e_has_restored := false |} in
  import dst (export src) =
    IOk {| e_clock := [3; 2; 1]%N; e_active := [0; 2]; e_names := [0; 1; 2];
           e_mtick := 5; e_qtick := 0; e_has_restored := false |}.
Proof. vm_compute. reflexivity. Qed.
