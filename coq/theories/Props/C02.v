(* C02 — property theorems. Nothing but statements closed by [exact]. *)
From Coq Require Import List Bool Arith Permutation.
From AMV Require Import Base.ListSet Model.Schema Model.Resolver Spec.C02.
From AMV Require Proofs.C02Proofs.
Import ListNotations.

(* (1) R1 holds unconditionally for the resolver's target *)
Theorem target_require_closed :
  forall (c : rctx) (to_set : list nat),
    r1_ok (rc_schema c) (target_states c to_set) = true.
Proof. exact C02Proofs.target_require_closed_lemma. Qed.
Print Assumptions target_require_closed.

Theorem resolve_require_closed :
  forall sc topo active mt called,
    r1_ok sc (resolve sc topo active mt called) = true.
Proof. exact C02Proofs.resolve_require_closed_lemma. Qed.
Print Assumptions resolve_require_closed.

(* (2) SortStates only permutes *)
Theorem sort_states_perm :
  forall sc topo l, Permutation (sort_states sc topo l) l.
Proof. exact C02Proofs.sort_states_perm_lemma. Qed.
Print Assumptions sort_states_perm.

Theorem sort_states_mem :
  forall sc topo l x, mem x (sort_states sc topo l) = mem x l.
Proof. exact C02Proofs.sort_states_mem_lemma. Qed.
Print Assumptions sort_states_mem.

(* (3) the reverse blocked-by scan leaves no state Removed by another kept
   state (nor by itself), provided its input is duplicate-free *)
Theorem resolved_conflict_free :
  forall sc all, NoDup all ->
    let res := blocked_scan sc all in
    forall a b, In a res -> In b res -> mem b (s_remove (sget sc a)) = true -> False.
Proof. exact C02Proofs.resolved_conflict_free_lemma. Qed.
Print Assumptions resolved_conflict_free.

Theorem scan_r2_ok :
  forall sc all, NoDup all -> r2_ok sc (blocked_scan sc all) = true.
Proof. exact C02Proofs.scan_r2_ok_lemma. Qed.
Print Assumptions scan_r2_ok.

(* the statement without NoDup is false *)
Theorem resolved_conflict_free_refuted :
  exists sc all a b,
    In a (blocked_scan sc all) /\ In b (blocked_scan sc all) /\ a <> b /\
    mem b (s_remove (sget sc a)) = true.
Proof. exact C02Proofs.resolved_conflict_free_refuted_lemma. Qed.
Print Assumptions resolved_conflict_free_refuted.

Example resolved_conflict_free_nonvacuous :
  let sd := fun (rem : list nat) =>
    {| s_auto := false; s_multi := false; s_require := []; s_add := [];
       s_remove := rem; s_after := [] |} in
  let sc := [sd []; sd [0]; sd [1]; sd [2]] in
  NoDup [3; 1; 0; 2] /\ blocked_scan sc [3; 1; 0; 2] = [1; 3].
Proof. exact C02Proofs.resolved_conflict_free_nonvacuous_lemma. Qed.
Print Assumptions resolved_conflict_free_nonvacuous.

(* the scan's input in the resolver is duplicate-free, so its output is R2-clean *)
Theorem resolved_list_r2_ok :
  forall c to_set, r2_ok (rc_schema c) (resolved_list c to_set) = true.
Proof. exact C02Proofs.resolved_list_r2_ok_lemma. Qed.
Print Assumptions resolved_list_r2_ok.

(* (4) R2 is violated by the as-is resolver *)
Theorem r2_refuted :
  exists sc topo active mt called,
    r2_ok sc (resolve sc topo active mt called) = false /\
    resolve sc topo active mt called = [2; 0; 1].
Proof. exact C02Proofs.r2_refuted_lemma. Qed.
Print Assumptions r2_refuted.

Theorem r2_readded_refuted :
  let sd := fun (multi : bool) (add rem : list nat) =>
    {| s_auto := false; s_multi := multi; s_require := []; s_add := add;
       s_remove := rem; s_after := [] |} in
  let sc := [sd false [] [2; 3; 1]; sd false [] [3; 2; 0]; sd false [] [3; 1; 0];
             sd false [0; 1] [2]; sd true [] []] in
  let c := {| rc_schema := sc; rc_before := [2]; rc_mtype := MAdd;
              rc_called := [3]; rc_topology := [] |} in
  pass1_list c [3; 2] = [3; 2; 0; 1] /\
  resolved_list c [3; 2] = [3] /\
  resolve sc [] [2] MAdd [3] = [1; 0; 3] /\
  r2_pairs sc (resolve sc [] [2] MAdd [3]) = [(1, 0); (1, 3); (0, 1); (0, 3)] /\
  r2_ok sc (resolve sc [] [2] MAdd [3]) = false.
Proof. exact C02Proofs.r2_readded_refuted_lemma. Qed.
Print Assumptions r2_readded_refuted.

(* (5) R3 is violated: Add chains deeper than the two parseAdd passes *)
Theorem r3_refuted :
  exists sc topo active mt called,
    r3_ok sc mt called active (resolve sc topo active mt called) = false /\
    resolve sc topo active mt called = [2; 0; 1] /\
    r3_missing sc mt called active (resolve sc topo active mt called) = [(2, 3)].
Proof. exact C02Proofs.r3_refuted_lemma. Qed.
Print Assumptions r3_refuted.

(* (6) a surviving Remove conflict always involves the second parseAdd pass *)
Theorem r2_conflict_needs_second_pass :
  forall (c : rctx) (to_set : list nat) a b,
    In (a, b) (r2_pairs (rc_schema c) (target_states c to_set)) ->
    ~ (mem a (resolved_list c to_set) = true /\ mem b (resolved_list c to_set) = true).
Proof. exact C02Proofs.r2_conflict_needs_second_pass_lemma. Qed.
Print Assumptions r2_conflict_needs_second_pass.

(* stronger: the removing side itself never left the scan *)
Theorem r2_conflict_remover_from_second_pass :
  forall (c : rctx) (to_set : list nat) a b,
    In (a, b) (r2_pairs (rc_schema c) (target_states c to_set)) ->
    mem a (resolved_list c to_set) = false.
Proof. exact C02Proofs.r2_conflict_remover_from_second_pass_lemma. Qed.
Print Assumptions r2_conflict_remover_from_second_pass.

Example r2_conflict_needs_second_pass_nonvacuous :
  let sd := fun (multi : bool) (add rem : list nat) =>
    {| s_auto := false; s_multi := multi; s_require := []; s_add := add;
       s_remove := rem; s_after := [] |} in
  let sc := [sd false [] [2; 3; 1]; sd false [] [3; 2; 0]; sd false [] [3; 1; 0];
             sd false [0; 1] [2]; sd true [] []] in
  let c := {| rc_schema := sc; rc_before := [2]; rc_mtype := MAdd;
              rc_called := [3]; rc_topology := [] |} in
  In (1, 0) (r2_pairs (rc_schema c) (target_states c [3; 2])) /\
  mem 1 (resolved_list c [3; 2]) = false /\
  mem 0 (resolved_list c [3; 2]) = false.
Proof. exact C02Proofs.r2_conflict_needs_second_pass_nonvacuous_lemma. Qed.
Print Assumptions r2_conflict_needs_second_pass_nonvacuous.

(* (7) R2 holds whenever the second parseAdd pass adds nothing new *)
Theorem r2_holds_without_second_pass_additions :
  forall (c : rctx) (to_set : list nat),
    every (resolved_list c to_set) (parse_add c (resolved_list c to_set)) = true ->
    r2_ok (rc_schema c) (target_states c to_set) = true.
Proof. exact C02Proofs.r2_holds_without_second_pass_additions_lemma. Qed.
Print Assumptions r2_holds_without_second_pass_additions.

Example r2_holds_without_second_pass_additions_nonvacuous :
  let sd := fun (multi : bool) (add rem : list nat) =>
    {| s_auto := false; s_multi := multi; s_require := []; s_add := add;
       s_remove := rem; s_after := [] |} in
  let c := {| rc_schema := [sd false [] [1]; sd false [] []; sd true [] []];
              rc_before := []; rc_mtype := MAdd; rc_called := [0; 1];
              rc_topology := [] |} in
  pass1_list c [0; 1] = [0; 1] /\
  resolved_list c [0; 1] = [0] /\
  every (resolved_list c [0; 1]) (parse_add c (resolved_list c [0; 1])) = true /\
  target_states c [0; 1] = [0].
Proof. exact C02Proofs.r2_holds_without_second_pass_additions_nonvacuous_lemma. Qed.
Print Assumptions r2_holds_without_second_pass_additions_nonvacuous.

(* (8) R4 gain: every gained state is called (Add/Set) or reachable through
   Add relations from a called or previously active state *)
Theorem r4_gain :
  forall sc topo active mt called,
    r4_gain_ok sc mt called active (resolve sc topo active mt called) = true.
Proof. exact C02Proofs.r4_gain_lemma. Qed.
Print Assumptions r4_gain.

Example r4_gain_nonvacuous :
  let sd := fun (multi : bool) (add : list nat) =>
    {| s_auto := false; s_multi := multi; s_require := []; s_add := add;
       s_remove := []; s_after := [] |} in
  let sc := [sd false [1]; sd false [2]; sd false [3]; sd false []; sd true []] in
  let sc2 := [sd false [1]; sd false [7]] in
  diff (resolve sc [] [] MAdd [0]) [] = [2; 0; 1] /\
  candidates sc MAdd [0] [] = [0; 1; 2; 3] /\
  diff (resolve sc2 [] [] MAdd [0]) [] = [7; 0; 1] /\
  candidates sc2 MAdd [0] [] = [0; 1; 7].
Proof. exact C02Proofs.r4_gain_nonvacuous_lemma. Qed.
Print Assumptions r4_gain_nonvacuous.

Theorem target_chain :
  forall (c : rctx) (to_set : list nat) x,
    In x (target_states c to_set) ->
    In x to_set \/
    (exists a, In a to_set /\ In x (add_of c a)) \/
    (exists a b, In a to_set /\ In b (add_of c a) /\ In x (add_of c b)).
Proof. exact C02Proofs.target_chain_lemma. Qed.
Print Assumptions target_chain.

Theorem r4_gain_partial :
  forall sc topo active mt called g,
    In g (resolve sc topo active mt called) -> ~ In g active ->
    let ts := states_to_set mt called active in
    (In g called /\ mt <> MRemove) \/
    (exists a, In a ts /\ In g (s_add (sget sc a))) \/
    (exists a b, In a ts /\ In b (s_add (sget sc a)) /\ In g (s_add (sget sc b))).
Proof. exact C02Proofs.r4_gain_partial_lemma. Qed.
Print Assumptions r4_gain_partial.

Theorem remove_called_not_gained :
  forall sc topo active called g,
    In g (resolve sc topo active MRemove called) -> In g called -> False.
Proof. exact C02Proofs.remove_called_not_gained_lemma. Qed.
Print Assumptions remove_called_not_gained.

Example r4_gain_partial_nonvacuous :
  let sd := fun (multi : bool) (add : list nat) =>
    {| s_auto := false; s_multi := multi; s_require := []; s_add := add;
       s_remove := []; s_after := [] |} in
  let sc := [sd false [1]; sd false [2]; sd false [3]; sd false []; sd true []] in
  In 2 (resolve sc [] [] MAdd [0]) /\ ~ In 2 [] /\
  In 0 (states_to_set MAdd [0] []) /\ In 1 (s_add (sget sc 0)) /\
  In 2 (s_add (sget sc 1)).
Proof. exact C02Proofs.r4_gain_partial_nonvacuous_lemma. Qed.
Print Assumptions r4_gain_partial_nonvacuous.

(* (9) R4 loss as specified is violated by the as-is resolver when started from
   an INCONSISTENT active set (state 0 active while its Require 3 is not: the
   start violates R1 and is unreachable, see inv_reachable): a state whose
   Require only arrives with the second parseAdd pass is dropped in the first *)
Theorem r4_loss_inconsistent_start_refuted :
  exists sc topo active mt called,
    r4_loss_ok sc mt called active (resolve sc topo active mt called) = false /\
    r1_ok sc active = false /\
    active = [0] /\ resolve sc topo active mt called = [3; 1; 2] /\
    s_require (sget sc 0) = [3].
Proof. exact C02Proofs.r4_loss_inconsistent_start_refuted_lemma. Qed.
Print Assumptions r4_loss_inconsistent_start_refuted.

(* every lost state is justified as specified, or missed a Require already in
   the first pass (the list that enters the scan) *)
Theorem r4_loss_partial :
  forall sc topo active mt called,
    let c := {| rc_schema := sc; rc_before := active; rc_mtype := mt;
                rc_called := called; rc_topology := topo |} in
    let s' := resolve sc topo active mt called in
    forallb (fun l =>
        loss_justified sc mt called active s' l
        || negb (forallb (fun r => mem r (pass1_list c (states_to_set mt called active)))
                         (s_require (sget sc l))))
      (diff active s') = true.
Proof. exact C02Proofs.r4_loss_partial_lemma. Qed.
Print Assumptions r4_loss_partial.

(* R4 loss holds whenever the second parseAdd pass adds nothing new *)
Theorem r4_loss_holds_without_second_pass_additions :
  forall sc topo active mt called,
    let c := {| rc_schema := sc; rc_before := active; rc_mtype := mt;
                rc_called := called; rc_topology := topo |} in
    let ts := states_to_set mt called active in
    every (resolved_list c ts) (parse_add c (resolved_list c ts)) = true ->
    r4_loss_ok sc mt called active (resolve sc topo active mt called) = true.
Proof. exact C02Proofs.r4_loss_holds_without_second_pass_additions_lemma. Qed.
Print Assumptions r4_loss_holds_without_second_pass_additions.

Example r4_loss_nonvacuous :
  let sd := fun (multi : bool) (req add rem : list nat) =>
    {| s_auto := false; s_multi := multi; s_require := req; s_add := add;
       s_remove := rem; s_after := [] |} in
  let scl := [sd false [3] [] []; sd false [] [2] []; sd false [] [3] [];
              sd false [] [] []; sd true [] [] []] in
  pass1_list {| rc_schema := scl; rc_before := [0]; rc_mtype := MAdd;
                rc_called := [1]; rc_topology := [] |} [1; 0] = [1; 2] /\
  diff [0] (resolve scl [] [0] MAdd [1]) = [0] /\
  (let sc := [sd false [] [] [1]; sd false [] [] []; sd true [] [] []] in
   let c := {| rc_schema := sc; rc_before := [1]; rc_mtype := MAdd;
               rc_called := [0]; rc_topology := [] |} in
   every (resolved_list c [0; 1]) (parse_add c (resolved_list c [0; 1])) = true /\
   diff [1] (resolve sc [] [1] MAdd [0]) = [1] /\
   r4_loss_ok sc MAdd [0] [1] (resolve sc [] [1] MAdd [0]) = true).
Proof. exact C02Proofs.r4_loss_nonvacuous_lemma. Qed.
Print Assumptions r4_loss_nonvacuous.

(* (10) R4 loss from consistent start states. False for Set mutations, even
   from a start reachable from the empty machine that satisfies R1 and R2:
   0 Requires 1; 2 Adds 3; 3 Adds 1;  [] --Add [0;1]--> [0;1] --Set [0;2]--> [1;2;3].
   0 is lost although called, its Require 1 is active afterwards and nothing
   Removes it *)
Theorem r4_loss_consistent_refuted :
  exists sc topo (ops : list (mut_type * list nat)) mt called,
    let active := fold_left (fun act op => resolve sc topo act (fst op) (snd op)) ops [] in
    r1_ok sc active = true /\ r2_ok sc active = true /\ NoDup active /\
    active = [0; 1] /\ resolve sc topo active mt called = [1; 2; 3] /\
    r4_loss_ok sc mt called active (resolve sc topo active mt called) = false.
Proof. exact C02Proofs.r4_loss_consistent_refuted_lemma. Qed.
Print Assumptions r4_loss_consistent_refuted.

(* true for Add and Remove mutations from any Require-closed start *)
Theorem r4_loss_consistent_partial :
  forall sc topo active mt called,
    mt <> MSet -> r1_ok sc active = true ->
    r4_loss_ok sc mt called active (resolve sc topo active mt called) = true.
Proof. exact C02Proofs.r4_loss_consistent_partial_lemma. Qed.
Print Assumptions r4_loss_consistent_partial.

Example r4_loss_consistent_partial_nonvacuous :
  let sd := fun (multi : bool) (req : list nat) =>
    {| s_auto := false; s_multi := multi; s_require := req; s_add := [];
       s_remove := []; s_after := [] |} in
  let sc := [sd false []; sd false [0]; sd true []] in
  r1_ok sc [0; 1] = true /\ MRemove <> MSet /\
  resolve sc [] [0; 1] MRemove [0] = [] /\
  diff [0; 1] (resolve sc [] [0; 1] MRemove [0]) = [0; 1].
Proof. exact C02Proofs.r4_loss_consistent_partial_nonvacuous_lemma. Qed.
Print Assumptions r4_loss_consistent_partial_nonvacuous.

(* (11) invariants of every active list reachable from the empty machine *)
Theorem inv_reachable :
  forall sc topo (ops : list (mut_type * list nat)),
    r1_ok sc (fold_left (fun act op => resolve sc topo act (fst op) (snd op)) ops []) = true.
Proof. exact C02Proofs.inv_reachable_lemma. Qed.
Print Assumptions inv_reachable.

Theorem resolve_NoDup :
  forall sc topo active mt called, NoDup (resolve sc topo active mt called).
Proof. exact C02Proofs.resolve_NoDup_lemma. Qed.
Print Assumptions resolve_NoDup.

Theorem inv_reachable_NoDup :
  forall sc topo (ops : list (mut_type * list nat)),
    NoDup (fold_left (fun act op => resolve sc topo act (fst op) (snd op)) ops []).
Proof. exact C02Proofs.inv_reachable_NoDup_lemma. Qed.
Print Assumptions inv_reachable_NoDup.

Theorem r4_loss_reachable :
  forall sc topo (ops : list (mut_type * list nat)) mt called,
    mt <> MSet ->
    let active := fold_left (fun act op => resolve sc topo act (fst op) (snd op)) ops [] in
    r4_loss_ok sc mt called active (resolve sc topo active mt called) = true.
Proof. exact C02Proofs.r4_loss_reachable_lemma. Qed.
Print Assumptions r4_loss_reachable.
