(* C15 — property theorems over the supervisor's event model (Conc/Pool.v).
   Nothing but statements closed by [exact]. Every statement quantifies over
   ALL event sequences [evs] (fork requests, starts, completions, failures,
   re-keying, kills, errors, mirror changes, cache expiry, PoolReady attempts
   in any order and number). *)
From Coq Require Import List NArith Bool Arith.
From AMV Require Import Base.ListSet Model.Schema Model.Resolver Spec.C02 Spec.C19 Conc.Pool Spec.C15.
From AMV Require Proofs.C15Proofs.
Import ListNotations.

(* (1) "never tracks more workers than its Max".
   pool_bound : forall c evs, bound_ok c (tracked (run no_fixes c evs)) = true
   is FALSE of the code as found: the gate is consulted when a fork is
   requested / started, the insert happens when it completes, without a gate.
   Witness: Max = 1, two forks requested and started while tracked = 0 (every
   gate saw tracked < Max), both complete: tracked = 2. *)
Theorem bound_refuted :
  exists c evs,
    s_foreign (run no_fixes c evs) = false /\
    bound_ok c (tracked (run no_fixes c evs)) = false /\
    forallb (fun s => (tracked s <? c_max c)%N)
            (firstn 4 (trace_from no_fixes c init_st evs)) = true.
Proof. exact C15Proofs.bound_refuted_lemma. Qed.
Print Assumptions bound_refuted.

(* the general shape: with Max >= 1, k forks requested and started while nothing
   is tracked yet all pass both gates, and all k insert - for every k *)
Theorem bound_refuted_burst :
  forall c k, (0 < c_max c)%N -> tracked (run no_fixes c (burst k)) = N.of_nat k.
Proof. exact C15Proofs.bound_refuted_burst_lemma. Qed.
Print Assumptions bound_refuted_burst.

(* what does hold: tracked + forks in flight never exceeds Max by more than
   (the largest number of forks ever in flight at once) - 1, as long as every
   inserted entry stems from a started fork ... *)
Theorem bound_partial :
  forall c evs,
    s_foreign (run no_fixes c evs) = false ->
    bound_partial_ok c (run no_fixes c evs) = true.
Proof. exact C15Proofs.bound_partial_lemma. Qed.
Print Assumptions bound_partial.

(* ... in particular the bound holds when forks are never in flight together *)
Theorem bound_sequential :
  forall c evs,
    s_foreign (run no_fixes c evs) = false -> s_peak (run no_fixes c evs) <= 1 ->
    bound_ok c (tracked (run no_fixes c evs)) = true.
Proof. exact C15Proofs.bound_sequential_lemma. Qed.
Print Assumptions bound_sequential.

(* the repair: SetWorkerEnter refuses a new address at Max. Then the bound
   holds for every event sequence, foreign inserts included. *)
Theorem pool_bound_fixed :
  forall c evs, bound_ok c (tracked (run insert_gate_fix c evs)) = true.
Proof. exact C15Proofs.pool_bound_fixed_lemma. Qed.
Print Assumptions pool_bound_fixed.

(* (1b) the normalizer. A round lists ALL tracked workers (initing or connected,
   errored or not) and requests min(min()+Warm, Max) - tracked forks, never
   more than the free slots it can see ... *)
Theorem normalize_requests_free_slots :
  forall c s,
    round_ok c (tracked s) (requests c s ENormalize) = true /\
    round_within_max c (tracked s) (requests c s ENormalize) = true.
Proof. exact C15Proofs.normalize_requests_free_slots_lemma. Qed.
Print Assumptions normalize_requests_free_slots.

(* ... whatever the workers' standing: errors (counted, lost, anonymous), mirror
   changes and cache expiry change neither the listing nor the request *)
Theorem normalize_counts_errored_workers :
  forall fx c s e,
    status_event e = true ->
    listing (fst (step fx c s e)) = listing s /\
    norm_forks c (fst (step fx c s e)) = norm_forks c s.
Proof. exact C15Proofs.normalize_counts_errored_workers_lemma. Qed.
Print Assumptions normalize_counts_errored_workers.

(* On a quiescent pool (no fork in flight) a round never drives the tracked
   count above Max: for every reachable pool [s] and EVERY continuation [r]
   (the round's requests, starts, completions and failures interleaved with
   kills, errors, deletions, re-keying ... in any order) in which no more forks
   are started than the round requested and every insert stems from a started
   fork, the count stays within Max - or where it already was. *)
Theorem normalize_round_within_max :
  forall fx c evs r,
    let s := run fx c evs in
    s_inflight s = [] ->
    (N.of_nat (forkings r) <= norm_forks c s)%N ->
    s_foreign (run_from fx c s r) = false ->
    (tracked (run_from fx c s r) <= N.max (c_max c) (tracked s))%N.
Proof. exact C15Proofs.normalize_round_within_max_lemma. Qed.
Print Assumptions normalize_round_within_max.

(* "no fork in flight" cannot be dropped: a round that lists while the fork of
   the previous one is still running requests it again (the known finding) *)
Theorem normalize_round_inflight_refuted :
  exists c evs r,
    let s := run no_fixes c evs in
    s_inflight s <> [] /\
    (N.of_nat (forkings r) <= norm_forks c s)%N /\
    s_foreign (run_from no_fixes c s r) = false /\
    bound_ok c (tracked s) = true /\
    bound_ok c (tracked (run_from no_fixes c s r)) = false.
Proof. exact C15Proofs.normalize_round_inflight_refuted_lemma. Qed.
Print Assumptions normalize_round_inflight_refuted.

(* a whole round run on its own (listing, all its requests started, then all
   completed, fresh bootstrap addresses) ends exactly at the target, or where
   the pool was when that is more *)
Theorem normalize_round_exact :
  forall c evs ks,
    let s := run no_fixes c evs in
    NoDup ks -> (forall k, In k ks -> wfind k (s_workers s) = None) ->
    (norm_forks c s <= N.of_nat (length ks))%N ->
    tracked (run_from no_fixes c s (norm_round c s ks)) = N.max (tracked s) (norm_target c).
Proof. exact C15Proofs.normalize_round_exact_lemma. Qed.
Print Assumptions normalize_round_exact.

(* (1c) one fork, one entry. Whatever the order of fork completions (SetWorker
   inserts), worker connections (WorkerForked re-keying), failures, kills,
   deletions and errors: the tracked workers never outnumber the completions
   so far ... *)
Theorem tracked_le_completions :
  forall fx c evs, (tracked (run fx c evs) <= N.of_nat (length (insert_keys evs)))%N.
Proof. exact C15Proofs.tracked_le_completions_lemma. Qed.
Print Assumptions tracked_le_completions.

(* ... and no two tracked entries stem from the same fork, as long as every
   fork's completion is inserted once (ForkingWorkerState queues one SetWorker
   per started fork, bootstrap addresses are not reused) *)
Theorem fork_tracked_once :
  forall fx c evs, NoDup (insert_keys evs) -> NoDup (forks_of (run fx c evs)).
Proof. exact C15Proofs.fork_tracked_once_lemma. Qed.
Print Assumptions fork_tracked_once.

(* the re-keying never adds an entry; when the boot entry is missing it changes
   nothing at all *)
Theorem rekey_never_grows :
  forall fx c s b a, rekey_ok (tracked s) (tracked (fst (step fx c s (ERekey b a)))) = true.
Proof. exact C15Proofs.rekey_never_grows_lemma. Qed.
Print Assumptions rekey_never_grows.

Theorem rekey_missing_noop :
  forall fx c s b a, wfind b (s_workers s) = None -> step fx c s (ERekey b a) = (s, true).
Proof. exact C15Proofs.rekey_missing_noop_lemma. Qed.
Print Assumptions rekey_missing_noop.

(* the worker connects BEFORE its fork completes (the TestFork seam returns
   late): WorkerForked finds no boot entry, ErrWorkerMissing names an address
   nobody tracks, the completion inserts the boot entry: one entry more, never
   connected, nobody more is ready *)
Theorem connect_before_completion :
  forall c s b a,
    wfind b (s_workers s) = None -> wfind a (s_workers s) = None ->
    let s' := run_from no_fixes c s [ERekey b a; EErr a true; ESetIns b] in
    tracked s' = (tracked s + 1)%N /\
    wfind b (s_workers s') = Some (fresh_info_of b) /\
    wfind a (s_workers s') = (if Nat.eqb a b then Some (fresh_info_of b) else None) /\
    ready s' = ready s /\
    s_inflight s' = rem b (s_inflight s).
Proof. exact C15Proofs.connect_before_completion_lemma. Qed.
Print Assumptions connect_before_completion.

(* (2) "never forks while at Max": a fork request / start that is accepted saw
   tracked < Max *)
Theorem never_forks_at_max :
  forall fx c s e s',
    (e = EForkReq \/ exists k, e = EForking k) ->
    step fx c s e = (s', true) -> fork_ok c (tracked s) = true.
Proof. exact C15Proofs.never_forks_at_max_lemma. Qed.
Print Assumptions never_forks_at_max.

(* (3) PoolReady becomes active only when at least min(Min, Max) workers are
   ready at that moment (the count is the same before and after the step) *)
Theorem poolready_sound :
  forall fx c evs e,
    let s := run fx c evs in
    let s' := fst (step fx c s e) in
    activation_ok c (s_poolready s) (s_poolready s') (ready s) = true /\
    (s_poolready s = false -> s_poolready s' = true ->
     ready s' = ready s /\ (min_eff c <= ready s')%N).
Proof. exact C15Proofs.poolready_sound_lemma. Qed.
Print Assumptions poolready_sound.

(* (4) ... and is not withdrawn while that many still are *)
Theorem poolready_not_withdrawn :
  forall fx c evs e,
    let s := run fx c evs in
    let s' := fst (step fx c s e) in
    withdrawal_ok c (s_poolready s) (s_poolready s') (ready s) = true /\
    (s_poolready s = true -> s_poolready s' = false ->
     ready s' = ready s /\ (ready s' < min_eff c)%N).
Proof. exact C15Proofs.poolready_not_withdrawn_lemma. Qed.
Print Assumptions poolready_not_withdrawn.

(* (5) "a worker that accumulates more than the configured number of errors has
   a kill requested for it".
   errors_request_kill : forall c evs, all_kill_ok c (run no_fixes c evs) = true
   is FALSE of the code as found: ErrWorker is not a Multi state, so an error
   raised while ErrWorker is still active does not reach ErrWorkerState and is
   never counted. Witness: limit 1, three errors for worker 1 in a row - one
   counted, no kill requested. *)
Theorem errors_request_kill_refuted :
  exists c evs,
    all_kill_ok c (run no_fixes c evs) = false /\
    s_lost (run no_fixes c evs) = true /\
    (exists i, wfind 1 (s_workers (run no_fixes c evs)) = Some i /\
               w_delivered i = 3%N /\ w_errs i = 1%N /\ w_killreq i = false).
Proof. exact C15Proofs.errors_request_kill_refuted_lemma. Qed.
Print Assumptions errors_request_kill_refuted.

(* what does hold: the clause for every event sequence in which no countable
   error of a tracked worker arrives while ErrWorker is active ... *)
Theorem errors_request_kill_partial :
  forall fx c evs,
    s_lost (run fx c evs) = false -> all_kill_ok c (run fx c evs) = true.
Proof. exact C15Proofs.errors_request_kill_partial_lemma. Qed.
Print Assumptions errors_request_kill_partial.

(* ... and, unconditionally, for the errors ErrWorkerState has counted *)
Theorem counted_errors_request_kill :
  forall fx c evs, all_kill_counted_ok c (run fx c evs) = true.
Proof. exact C15Proofs.counted_errors_request_kill_lemma. Qed.
Print Assumptions counted_errors_request_kill.

(* the repair: ErrWorker declared Multi. Then the clause holds for every event
   sequence. *)
Theorem errors_request_kill_fixed :
  forall c evs, all_kill_ok c (run err_multi_fix c evs) = true.
Proof. exact C15Proofs.errors_request_kill_fixed_lemma. Qed.
Print Assumptions errors_request_kill_fixed.

(* the request is issued by the very (handled) error event that takes the
   count over the limit *)
Theorem error_over_limit_logged :
  forall fx c evs k i,
    let s := run fx c evs in
    wfind k (s_workers s) = Some i -> over_limit c (w_errs i + 1) = true ->
    (fx_err_multi fx || negb (s_errworker s)) = true ->
    let s' := fst (step fx c s (EErr k true)) in
    s_killlog s' = k :: s_killlog s /\
    exists i', wfind k (s_workers s') = Some i' /\ w_killreq i' = true /\
               w_errs i' = (w_errs i + 1)%N.
Proof. exact C15Proofs.error_over_limit_logged_lemma. Qed.
Print Assumptions error_over_limit_logged.

(* (6) state groups: C19's theorem, for every schema and every group that is
   group_safe (mutually Removing, at most one member an Add target). Whether
   the regenerated PoolStatus / PoolNormalized / WorkStatus groups satisfy
   group_safe is evaluated on every run (Run.EvalC15.covered); a group that
   does not is explored only. *)
Theorem groups_exclusive :
  forall sc topo g ops,
    group_safe sc g = true -> exclusive_ok g (reach sc topo ops) = true.
Proof. exact C15Proofs.groups_exclusive_lemma. Qed.
Print Assumptions groups_exclusive.

Example poolready_nonvacuous :
  let c := {| c_min := 2; c_max := 3; c_errkill := 1; c_warm := 0 |} in
  let up := [EForkReq; EForking 1; ESetIns 1; ERekey 1 11; EForkReq; EForking 2; ESetIns 2] in
  step no_fixes c (run no_fixes c up) ETryReady = (run no_fixes c up, false) /\
  s_poolready (run no_fixes c (up ++ [ERekey 2 12; ETryReady])) = true /\
  ready (run no_fixes c (up ++ [ERekey 2 12; ETryReady])) = 2%N /\
  s_poolready (run no_fixes c (up ++ [ERekey 2 12; ETryReady; ETryUnready])) = true /\
  s_poolready (run no_fixes c (up ++ [ERekey 2 12; ETryReady; EErr 12 true; ETryUnready])) = false /\
  s_killlog (run no_fixes c (up ++ [ERekey 2 12; EErr 12 true; EErrClear; EErr 12 true])) = [12] /\
  s_killlog (run no_fixes c (up ++ [ERekey 2 12; EErr 12 true; EErrClear; EErr 12 false])) = [] /\
  s_killlog (run no_fixes c (up ++ [ERekey 2 12; EErr 12 true; EErr 12 true])) = [] /\
  s_killlog (run err_multi_fix c (up ++ [ERekey 2 12; EErr 12 true; EErr 12 true])) = [12].
Proof. exact C15Proofs.poolready_nonvacuous_lemma. Qed.
Print Assumptions poolready_nonvacuous.

Example normalize_round_nonvacuous :
  let up := [ENormalize; EForkReq; EForking 1; EForkReq; EForking 2; ESetIns 1; ESetIns 2;
             ERekey 1 11; ERekey 2 12;
             EErr 11 true; EErrClear; EErr 12 true; EErrClear] in
  let c0 := {| c_min := 2; c_max := 3; c_errkill := 3; c_warm := 0 |} in
  let c1 := {| c_min := 2; c_max := 3; c_errkill := 3; c_warm := 1 |} in
  tracked (run no_fixes c0 up) = 2%N /\ ready (run no_fixes c0 up) = 0%N /\
  s_killlog (run no_fixes c0 up) = [] /\ s_inflight (run no_fixes c0 up) = [] /\
  listing (run no_fixes c0 up) = 2%N /\
  requests c0 (run no_fixes c0 up) ENormalize = 0%N /\
  requests c1 (run no_fixes c1 up) ENormalize = 1%N /\
  tracked (run no_fixes c0 (up ++ norm_round c0 (run no_fixes c0 up) [3; 4; 5])) = 2%N /\
  tracked (run no_fixes c1 (up ++ norm_round c1 (run no_fixes c1 up) [3; 4; 5])) = 3%N /\
  round_ok c0 2 2 = false /\
  tracked (run no_fixes c0 (up ++ ENormalize :: burst_keys [3; 4])) = 4%N /\
  bound_ok c0 (tracked (run no_fixes c0 (up ++ ENormalize :: burst_keys [3; 4]))) = false.
Proof. exact C15Proofs.normalize_round_nonvacuous_lemma. Qed.
Print Assumptions normalize_round_nonvacuous.

Example late_seam_nonvacuous :
  let c := {| c_min := 1; c_max := 1; c_errkill := 3; c_warm := 0 |} in
  let late := [ENormalize; EForkReq; EForking 1; ERekey 1 11; EErr 11 true; EErrClear; ESetIns 1] in
  let prompt := [ENormalize; EForkReq; EForking 1; ESetIns 1; ERekey 1 11] in
  tracked (run no_fixes c prompt) = 1%N /\ ready (run no_fixes c prompt) = 1%N /\
  forks_of (run no_fixes c prompt) = [1] /\
  tracked (run no_fixes c late) = 1%N /\ ready (run no_fixes c late) = 0%N /\
  forks_of (run no_fixes c late) = [1] /\
  wfind 11 (s_workers (run no_fixes c late)) = None /\
  step no_fixes c (run no_fixes c late) ETryReady = (run no_fixes c late, false) /\
  step no_fixes c (run no_fixes c late) EForkReq = (run no_fixes c late, false) /\
  bound_ok c (tracked (run no_fixes c late)) = true /\
  bound_partial_obs c 2 (run no_fixes c late) = false /\
  rekey_ok 0 1 = false.
Proof. exact C15Proofs.late_seam_nonvacuous_lemma. Qed.
Print Assumptions late_seam_nonvacuous.
