(* C04 — property theorems over the interleaving model Conc/QueueLock.v.
   Nothing but statements closed by [exact] (and concrete non-vacuity facts).
   All theorems hold for any number of threads (any [muts]) and any schedule
   (any [sched], including out-of-range thread indexes). *)
From Coq Require Import List Bool Arith.
From AMV Require Import Conc.QueueLock Spec.C04.
From AMV Require Proofs.C04Proofs.
Import ListNotations.

(* ghost definitions used in the statements (defined in Proofs/C04Proofs.v):
   [C04Proofs.popped recheck c sched] — the (mutation, tick) pairs popped
     along the schedule, in execution order (what [executed] would hold if it
     stored ticks);
   [C04Proofs.ids_of muts] — all mutation ids, own and nested:
     flat_map (fun p => fst p :: snd p) muts. *)

(* (1) one transition at a time: at most one thread is inside the drain and
   queueProcessing is true exactly when one is *)
Theorem drain_mutex :
  forall (recheck : bool) (muts : list (nat * list nat)) (sched : list nat),
    mutex_ok (exec_sched recheck (init_cfg muts) sched) = true.
Proof. exact C04Proofs.drain_mutex_lemma. Qed.
Print Assumptions drain_mutex.

Example drain_mutex_nonvacuous :
  let c := exec_sched true (init_cfg [(0, [10; 11]); (1, []); (2, [])])
             [0;0;0;0;0; 1;1;1; 2;2] in
  holders c = 1 /\ processing (sh c) = true /\ mutex_ok c = true.
Proof. vm_compute. repeat split; reflexivity. Qed.
Print Assumptions drain_mutex_nonvacuous.

(* (2) executed in the order of the queue ticks *)
Theorem fifo_by_tick :
  forall (recheck : bool) (muts : list (nat * list nat)) (sched : list nat),
    let c := exec_sched recheck (init_cfg muts) sched in
    let p := C04Proofs.popped recheck (init_cfg muts) sched in
    (* p is the executed list, with the ticks the mutations were queued under *)
    map fst p = map fst (rev (executed (sh c))) /\
    (* executed in strictly increasing tick order; the queue is sorted by tick *)
    increasing (map snd p) = true /\
    increasing (map snd (queue (sh c))) = true /\
    (* everything queued is later than everything executed *)
    (forall a b, In a (map snd p) -> In b (map snd (queue (sh c))) -> a < b) /\
    (* ticks are handed out consecutively in enqueue order; qtick counts the pops *)
    map snd (p ++ queue (sh c)) = seq 2 (length (p ++ queue (sh c))) /\
    qtick (sh c) = S (length p) /\ pending (sh c) = qlen (sh c) /\
    (* the tick a caller got is the tick its own mutation is queued/executed under *)
    (forall t, In t (ths c) -> t_pc t <> PEnq -> In (t_mut t, t_tick t) (p ++ queue (sh c))).
Proof. exact C04Proofs.fifo_by_tick_lemma. Qed.
Print Assumptions fifo_by_tick.

Example fifo_by_tick_nonvacuous :
  let muts := [(0, [10; 11]); (1, []); (2, [])] in
  C04Proofs.popped true (init_cfg muts) [0;0;0;0;0; 1;1;1; 2;2;2; 0;0;0;0]
    = [(0, 2); (10, 3); (11, 4)] /\
  queue (sh (exec_sched true (init_cfg muts) [0;0;0;0;0; 1;1;1; 2;2;2; 0;0;0;0]))
    = [(1, 5); (2, 6)].
Proof. vm_compute. split; reflexivity. Qed.
Print Assumptions fifo_by_tick_nonvacuous.

(* (3) none lost, none twice *)
Theorem none_lost_none_twice :
  forall (recheck : bool) (muts : list (nat * list nat)) (sched : list nat),
    let c := exec_sched recheck (init_cfg muts) sched in
    (* every caller that passed the enqueue has its mutation queued or executed *)
    (forall t, In t (ths c) -> t_pc t <> PEnq -> In (t_mut t) (enqueued c)) /\
    (* the handlers' mutations of an executed mutation are queued or executed *)
    (forall m, In m (map fst (executed (sh c))) ->
       forall n, In n (nested_for (sh c) m) -> In n (enqueued c)) /\
    (* with pairwise distinct ids: nothing twice, and nested per the table *)
    (nodupb (C04Proofs.ids_of muts) = true ->
       nodupb (enqueued c) = true /\
       (forall m ns, In (m, ns) muts -> In m (map fst (executed (sh c))) ->
          forall n, In n ns -> In n (enqueued c))).
Proof. exact C04Proofs.none_lost_none_twice_lemma. Qed.
Print Assumptions none_lost_none_twice.

Example none_lost_none_twice_nonvacuous :
  let muts := [(0, [10; 11]); (1, []); (2, [])] in
  let c := exec_sched true (init_cfg muts) [0;0;0;0;0; 1;1;1; 2;2;2; 0;0] in
  nodupb (C04Proofs.ids_of muts) = true /\
  map fst (executed (sh c)) = [10; 0] /\ enqueued c = [0; 10; 11; 1; 2].
Proof. vm_compute. repeat split; reflexivity. Qed.
Print Assumptions none_lost_none_twice_nonvacuous.

(* (4) with the re-check after the release, an idle machine never sits on a
   non-empty queue *)
Theorem no_strand :
  forall (muts : list (nat * list nat)) (sched : list nat),
    no_strand_ok (exec_sched true (init_cfg muts) sched) = true.
Proof. exact C04Proofs.no_strand_lemma. Qed.
Print Assumptions no_strand.

(* the schedule of (5), continued: thread 0 re-enters and drains thread 1's mutation *)
Example no_strand_nonvacuous :
  let c := exec_sched true (init_cfg [(0, []); (1, [])])
             [0;0;0;0;0;0; 1;1;1; 0;0; 0;0;0;0;0;0;0] in
  all_done c = true /\ qlen (sh c) = 0 /\ map fst (rev (executed (sh c))) = [0; 1] /\
  map t_res (ths c) = [RExecuted; RQueued 3].
Proof. vm_compute. repeat split; reflexivity. Qed.
Print Assumptions no_strand_nonvacuous.

(* (5) without the re-check (the code as found) a mutation that returned a
   queue tick is stranded: everybody returned, the queue is not empty *)
Theorem no_strand_refuted :
  exists (muts : list (nat * list nat)) (sched : list nat),
    no_strand_ok (exec_sched false (init_cfg muts) sched) = false.
Proof. exact C04Proofs.no_strand_refuted_lemma. Qed.
Print Assumptions no_strand_refuted.

Example no_strand_refuted_witness :
  let c := exec_sched false (init_cfg [(0, []); (1, [])]) [0;0;0;0;0;0; 1;1;1; 0;0] in
  all_done c = true /\ queue (sh c) = [(1, 3)] /\
  map t_res (ths c) = [RExecuted; RQueued 3] /\ no_strand_ok c = false.
Proof. vm_compute. repeat split; reflexivity. Qed.
Print Assumptions no_strand_refuted_witness.

(* (6) a returned queue tick is the tick of the caller's own mutation (and
   the caller has returned); Executed is only reported if a transition ran *)
Theorem results_truthful :
  forall (recheck : bool) (muts : list (nat * list nat)) (sched : list nat) (t : thread),
    In t (ths (exec_sched recheck (init_cfg muts) sched)) ->
    (forall k, t_res t = RQueued k -> k = t_tick t /\ t_pc t = PDone) /\
    (t_res t = RExecuted -> t_first t = true).
Proof. exact C04Proofs.results_truthful_lemma. Qed.
Print Assumptions results_truthful.

Example results_truthful_nonvacuous :
  let c := exec_sched true (init_cfg [(0, [10; 11]); (1, []); (2, [])])
             [0;0;0;0;0; 1;1;1; 2;2;2] in
  map t_res (ths c) = [RNone; RQueued 5; RQueued 6] /\
  map t_tick (ths c) = [2; 5; 6] /\ map t_first (ths c) = [true; false; false].
Proof. vm_compute. repeat split; reflexivity. Qed.
Print Assumptions results_truthful_nonvacuous.

(* (7) at quiescence every own mutation and (with distinct ids) every nested
   mutation has been executed, exactly once *)
Theorem eventually_processed :
  forall (muts : list (nat * list nat)) (sched : list nat),
    let c := exec_sched true (init_cfg muts) sched in
    all_done c = true ->
    (forall m ns, In (m, ns) muts -> In m (map fst (executed (sh c)))) /\
    (nodupb (C04Proofs.ids_of muts) = true ->
       nodupb (map fst (executed (sh c))) = true /\
       (forall m ns, In (m, ns) muts -> forall n, In n ns -> In n (map fst (executed (sh c))))).
Proof. exact C04Proofs.eventually_processed_lemma. Qed.
Print Assumptions eventually_processed.

(* three threads, nested mutations: all return, five mutations executed in tick order *)
Example eventually_processed_nonvacuous :
  let muts := [(0, [10; 11]); (1, []); (2, [])] in
  let sched := [0;0;0;0;0; 1;1;1; 2;2;2; 0;0;0;0;0;0;0;0; 0;0;0] in
  let c := exec_sched true (init_cfg muts) sched in
  all_done c = true /\ nodupb (C04Proofs.ids_of muts) = true /\
  map fst (rev (executed (sh c))) = [0; 10; 11; 1; 2] /\
  C04Proofs.popped true (init_cfg muts) sched = [(0, 2); (10, 3); (11, 4); (1, 5); (2, 6)] /\
  map t_res (ths c) = [RExecuted; RQueued 5; RQueued 6].
Proof. vm_compute. repeat split; reflexivity. Qed.
Print Assumptions eventually_processed_nonvacuous.

(* ------------------------------------------------------------------ *)
(* Prepended, tick-less mutations (CanAdd / CanRemove / Eval /         *)
(* PrependMut share processQueue): the generalised interleaving model  *)
(* Conc/QueueLockP.v - a goroutine is an Add1 caller or a check caller *)
(* whose mutation is PREPENDED without a queue tick; the re-check      *)
(* after the release is a parameter (RmNone / RmLen = the code /       *)
(* RmPending = looks at queueTicksPending only). The names below are   *)
(* those of QueueLockP (same names as QueueLock, shadowed inside the   *)
(* module). Any number of goroutines, any mix, any schedule.           *)
(* ------------------------------------------------------------------ *)
From AMV Require Conc.QueueLockP Proofs.C04PProofs Proofs.C04PProofs2.
Module P.
Import AMV.Conc.QueueLockP.


(* (1) one transition at a time: at most one thread is inside the drain
   (PLoop / PPop / PRelease) and queueProcessing is true exactly when one is;
   whatever the re-check mode *)
Theorem drain_mutex_p :
  forall (mode : rmode) (muts : list (nat * list nat * bool)) (sched : list nat),
    mutex_ok (exec_sched mode (init_cfg muts) sched) = true.
Proof. exact C04PProofs.drain_mutex_p_lemma. Qed.
Print Assumptions drain_mutex_p.

(* (2) with the queue-length re-check after the release (the code), an idle
   machine never sits on a non-empty queue, also when check threads prepend
   tick-less entries *)
Theorem no_strand_p :
  forall (muts : list (nat * list nat * bool)) (sched : list nat),
    no_strand_ok (exec_sched RmLen (init_cfg muts) sched) = true /\
    (all_done (exec_sched RmLen (init_cfg muts) sched) = true ->
     queue (sh (exec_sched RmLen (init_cfg muts) sched)) = []).
Proof. exact C04PProofs.no_strand_p_lemma. Qed.
Print Assumptions no_strand_p.

(* (3) a re-check that looks at queueTicksPending instead of the queue length
   strands a tick-less (check) entry: everybody returned, the queue is not
   empty although nothing is pending and nobody processes *)
Theorem no_strand_pending_refuted :
  exists (muts : list (nat * list nat * bool)) (sched : list nat),
    let c := exec_sched RmPending (init_cfg muts) sched in
    all_done c = true /\ queue (sh c) <> [] /\ pending (sh c) = 0 /\
    processing (sh c) = false /\ no_strand_ok c = false.
Proof. exact C04PProofs.no_strand_pending_refuted_lemma. Qed.
Print Assumptions no_strand_pending_refuted.

(* (3') the same schedule under the queue-length re-check: thread 0 re-enters
   and, scheduled to completion, drains the check entry *)
Theorem no_strand_pending_same_schedule_ok :
  let muts := [(0, [], false); (1, [], true)] in
  let sched := [0;0;0;0;0;0; 1;1;1; 0;0] in
  let cb := exec_sched RmPending (init_cfg muts) sched in
  let c1 := exec_sched RmLen (init_cfg muts) sched in
  let c2 := exec_sched RmLen (init_cfg muts) (sched ++ [0;0;0;0;0;0;0]) in
  (all_done cb = true /\ queue (sh cb) = [(1, 0)] /\
   map t_res (ths cb) = [RExecuted; RQueued 0] /\ no_strand_ok cb = false) /\
  (all_done c1 = false /\ queue (sh c1) = [(1, 0)] /\
   map t_pc (ths c1) = [PEntry; PDone] /\ no_strand_ok c1 = true) /\
  (all_done c2 = true /\ queue (sh c2) = [] /\
   map fst (rev (executed (sh c2))) = [0; 1] /\
   map t_res (ths c2) = [RExecuted; RQueued 0] /\ no_strand_ok c2 = true).
Proof. exact C04PProofs.no_strand_pending_same_schedule_ok_lemma. Qed.
Print Assumptions no_strand_pending_same_schedule_ok.

(* ---- none lost / none twice, truthful results, all executed at quiescence ---- *)


(* (a) none lost, none twice — whatever the re-check mode *)
Theorem none_lost_none_twice_p :
  forall (mode : rmode) (muts : list (nat * list nat * bool)) (sched : list nat),
    let c := exec_sched mode (init_cfg muts) sched in
    (* every caller (check or not) that passed the enqueue has its mutation queued or executed *)
    (forall t, In t (ths c) -> t_pc t <> PEnq -> In (t_mut t) (enqueued c)) /\
    (* the handlers' mutations of an executed mutation are queued or executed *)
    (forall m, In m (map fst (executed (sh c))) ->
       forall n, In n (nested_for (sh c) m) -> In n (enqueued c)) /\
    (* with pairwise distinct ids: nothing twice, and nested per the table *)
    (Spec.C04.nodupb (C04PProofs2.ids_of muts) = true ->
       Spec.C04.nodupb (enqueued c) = true /\
       (forall m ns b, In (m, ns, b) muts -> In m (map fst (executed (sh c))) ->
          forall n, In n ns -> In n (enqueued c))).
Proof. exact C04PProofs2.none_lost_none_twice_p_lemma. Qed.
Print Assumptions none_lost_none_twice_p.

(* thread 1 is a check thread: its mutation is prepended and executed before
   the nested mutations 10, 11 that were queued earlier *)
Example none_lost_none_twice_p_nonvacuous :
  let muts := [(0, [10; 11], false); (1, [], true); (2, [], false)] in
  let c := exec_sched RmLen (init_cfg muts) [0;0;0;0;0; 1;1;1; 2;2;2; 0;0] in
  Spec.C04.nodupb (C04PProofs2.ids_of muts) = true /\
  map fst (executed (sh c)) = [1; 0] /\ queue (sh c) = [(10, 3); (11, 4); (2, 5)] /\
  enqueued c = [0; 1; 10; 11; 2] /\ Spec.C04.nodupb (enqueued c) = true.
Proof. vm_compute. repeat split; reflexivity. Qed.
Print Assumptions none_lost_none_twice_p_nonvacuous.

(* (b) a returned queue tick is the tick of the caller's own mutation (and the
   caller has returned); Executed is only reported if a transition ran *)
Theorem results_truthful_p :
  forall (mode : rmode) (muts : list (nat * list nat * bool)) (sched : list nat) (t : thread),
    In t (ths (exec_sched mode (init_cfg muts) sched)) ->
    (forall k, t_res t = RQueued k -> k = t_tick t /\ t_pc t = PDone) /\
    (t_res t = RExecuted -> t_first t = true).
Proof. exact C04PProofs2.results_truthful_p_lemma. Qed.
Print Assumptions results_truthful_p.

(* (b') a check thread carries no tick: its Queued result is the bare Queued *)
Theorem check_queued_bare_p :
  forall (mode : rmode) (muts : list (nat * list nat * bool)) (sched : list nat) (t : thread),
    In t (ths (exec_sched mode (init_cfg muts) sched)) ->
    t_chk t = true -> forall k, t_res t = RQueued k -> k = 0.
Proof. exact C04PProofs2.check_queued_bare_lemma. Qed.
Print Assumptions check_queued_bare_p.

Example results_truthful_p_nonvacuous :
  let c := exec_sched RmLen (init_cfg [(0, [10; 11], false); (1, [], true); (2, [], false)])
             [0;0;0;0;0; 1;1;1; 2;2;2; 0;0] in
  map t_res (ths c) = [RNone; RQueued 0; RQueued 5] /\
  map t_tick (ths c) = [2; 0; 5] /\ map t_first (ths c) = [true; false; false] /\
  map t_chk (ths c) = [false; true; false] /\ map t_pc (ths c) = [PLoop; PDone; PDone].
Proof. vm_compute. repeat split; reflexivity. Qed.
Print Assumptions results_truthful_p_nonvacuous.

(* (c) with the queue-length re-check (the code), at quiescence every thread's
   own mutation (check threads included) and, with distinct ids, every nested
   mutation has been executed, exactly once *)
Theorem all_done_all_executed_p :
  forall (muts : list (nat * list nat * bool)) (sched : list nat),
    let c := exec_sched RmLen (init_cfg muts) sched in
    all_done c = true ->
    (forall t, In t (ths c) -> In (t_mut t) (map fst (executed (sh c)))) /\
    (forall m ns b, In (m, ns, b) muts -> In m (map fst (executed (sh c)))) /\
    (Spec.C04.nodupb (C04PProofs2.ids_of muts) = true ->
       Spec.C04.nodupb (map fst (executed (sh c))) = true /\
       (forall m ns b, In (m, ns, b) muts ->
          forall n, In n ns -> In n (map fst (executed (sh c))))).
Proof. exact C04PProofs2.all_done_all_executed_p_lemma. Qed.
Print Assumptions all_done_all_executed_p.

(* three threads (thread 1 a check thread), nested mutations: all return, five
   mutations executed, the prepended check mutation ahead of the queued ones *)
Example all_done_all_executed_p_nonvacuous :
  let muts := [(0, [10; 11], false); (1, [], true); (2, [], false)] in
  let sched := [0;0;0;0;0; 1;1;1; 2;2;2; 0;0;0;0;0;0;0;0; 0;0;0;0;0] in
  let c := exec_sched RmLen (init_cfg muts) sched in
  all_done c = true /\ Spec.C04.nodupb (C04PProofs2.ids_of muts) = true /\
  map fst (rev (executed (sh c))) = [0; 1; 10; 11; 2] /\ queue (sh c) = [] /\
  map t_res (ths c) = [RExecuted; RQueued 0; RQueued 5].
Proof. vm_compute. repeat split; reflexivity. Qed.
Print Assumptions all_done_all_executed_p_nonvacuous.
End P.
