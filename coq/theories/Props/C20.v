(* C20 — property theorems about the helper model (Model/Helpers.v) with the
   predicates of Spec/C20.v. Nothing but statements closed by [exact].

   The model mirrors the code after the fix commits 62b8f1e..6fbf01e of /repo
   (knobs at the top of Helpers.v, pinned by [model_is_todays_code]); the
   theorems named after a clause of the property state that clause in full.
   Naming: [x_refuted]          the intended statement is (still) false of
                                the faithful model; the witness is a corpus case;
           [x_partial]          the strongest true statement next to it;
           [x_unfixed_refuted]  the model variant WITHOUT a fix violates the
                                clause (what a revert of the fix brings back). *)
From Coq Require Import List NArith ZArith Bool Arith.
From AMV Require Import Base.ListSet Model.Helpers Spec.C20.
From AMV Require Proofs.C20Proofs.
Import ListNotations.

(* the model variant that is compared with the implementation *)
Theorem model_is_todays_code :
  s_rem_from = 0 /\ parse_dup_filters = true /\ first_guards_empty = true /\
  last_idx_absolute = false /\ active_states_filters = true /\
  time_equal_guards = true /\ add_noargs_uniq = true.
Proof. exact C20Proofs.model_is_todays_code_lemma. Qed.
Print Assumptions model_is_todays_code.

(* ================================================================== *)
(* S.Add / Add1 / SAdd                                                 *)

Theorem add_is_union_nodup :
  forall s ls,
    add_ok s ls (s_add s ls) = true /\
    NoDup (s_add s ls) /\
    (forall x, In x (s_add s ls) <-> In x s \/ exists l, In l ls /\ In x l) /\
    s_add s ls = uniq (s ++ concat ls).
Proof. exact C20Proofs.add_is_union_nodup_lemma. Qed.
Print Assumptions add_is_union_nodup.

Theorem add_unfixed_refuted :
  exists s ls, add_ok s ls (s_add_k false s ls) = false.
Proof. exact C20Proofs.add_unfixed_refuted_lemma. Qed.
Print Assumptions add_unfixed_refuted.

Theorem add1_is_union_nodup :
  forall s names,
    add_ok s [names] (s_add1 s names) = true /\ NoDup (s_add1 s names) /\
    (forall x, In x (s_add1 s names) <-> In x s \/ In x names).
Proof. exact C20Proofs.add1_is_union_nodup_lemma. Qed.
Print Assumptions add1_is_union_nodup.

Theorem sadd_is_union_nodup :
  forall ls,
    add_ok [] ls (sadd ls) = true /\ NoDup (sadd ls) /\
    (forall x, In x (sadd ls) <-> exists l, In l ls /\ In x l).
Proof. exact C20Proofs.sadd_is_union_nodup_lemma. Qed.
Print Assumptions sadd_is_union_nodup.

Theorem add_idempotent :
  forall s l, s_add (s_add s [l]) [l] = s_add s [l].
Proof. exact C20Proofs.add_idempotent_lemma. Qed.
Print Assumptions add_idempotent.

(* ================================================================== *)
(* Sub / Shared / Equal / EqualOrder / Unique / Has                    *)

Theorem sub_is_diff :
  forall a b,
    sub_ok a b (s_sub a b) = true /\ (forall x, In x (s_sub a b) <-> In x a /\ ~ In x b).
Proof. exact C20Proofs.sub_is_diff_lemma. Qed.
Print Assumptions sub_is_diff.

Theorem shared_is_inter :
  forall a b,
    shared_ok a b (s_shared a b) = true /\
    (forall x, In x (s_shared a b) <-> In x a /\ In x b).
Proof. exact C20Proofs.shared_is_inter_lemma. Qed.
Print Assumptions shared_is_inter.

Theorem equal_is_seteq :
  forall a b,
    equal_ok a b (s_equal a b) = true /\
    (s_equal a b = true <-> (forall x, In x a <-> In x b)).
Proof. exact C20Proofs.equal_is_seteq_lemma. Qed.
Print Assumptions equal_is_seteq.

Theorem equal_order_is_eq : forall a b, s_equal_order a b = true <-> a = b.
Proof. exact C20Proofs.equal_order_eq_lemma. Qed.
Print Assumptions equal_order_is_eq.

Theorem unique_is_nodup_same_set :
  forall a, unique_ok a (s_unique a) = true /\ NoDup (s_unique a).
Proof. exact C20Proofs.unique_ok_lemma. Qed.
Print Assumptions unique_is_nodup_same_set.

Theorem has_is_membership : forall a x, s_has a x = true <-> In x a.
Proof. exact C20Proofs.has_is_mem_lemma. Qed.
Print Assumptions has_is_membership.

Theorem index_of_spec :
  forall index x,
    (index_of index x = (-1)%Z /\ ~ In x index) \/
    (exists j, index_of index x = Z.of_nat j /\ nth_error index j = Some x).
Proof. exact C20Proofs.index_of_spec_lemma. Qed.
Print Assumptions index_of_spec.

Theorem set_helpers_total :
  forall op, set_in_domain op = true -> run_set op <> VPanic.
Proof. exact C20Proofs.set_ops_total_lemma. Qed.
Print Assumptions set_helpers_total.

(* ================================================================== *)
(* S.Delete / Delete1 / SRem                                           *)

(* "S.Delete removes": on duplicate-free receivers *)
Theorem delete_removes :
  forall s ls, NoDup s ->
    delete_ok s ls (s_delete s ls) = true /\ delete_ok s ls (s_rem s ls) = true.
Proof. exact C20Proofs.delete_removes_lemma. Qed.
Print Assumptions delete_removes.

Theorem delete1_removes :
  forall s names, NoDup s -> delete_ok s [names] (s_delete1 s names) = true.
Proof. exact C20Proofs.delete1_removes_lemma. Qed.
Print Assumptions delete1_removes.

(* intended without the NoDup hypothesis: still false, slicesWithout drops
   the first occurrence only (known finding 2:204) *)
Theorem delete_removes_fixed_dup_refuted :
  exists s ls, delete_ok s ls (s_delete s ls) = false.
Proof. exact C20Proofs.delete_removes_dup_refuted_lemma. Qed.
Print Assumptions delete_removes_fixed_dup_refuted.

(* never loses or invents a name, whatever the start index *)
Theorem delete_sound :
  forall from s ls y,
    (In y (s_rem_at from s ls) -> In y s) /\
    (In y s -> ~ In y (concat ls) -> In y (s_rem_at from s ls)).
Proof. exact C20Proofs.s_rem_incl_lemma. Qed.
Print Assumptions delete_sound.

(* the loop starting at 1 (before fix 62b8f1e) skipped the only list *)
Theorem delete_unfixed_refuted :
  (forall s l, s_rem_at 1 s [l] = s) /\
  exists s l, delete_ok s [l] (s_rem_at 1 s [l]) = false.
Proof. exact C20Proofs.delete_unfixed_refuted_lemma. Qed.
Print Assumptions delete_unfixed_refuted.

(* ================================================================== *)
(* ParseStates / mustParseStates                                       *)

(* "ParseStates drops unknown names and duplicates" *)
Theorem parse_states :
  forall n states, parse_ok n states (snd (Helpers.parse_states n states)) = true.
Proof. exact C20Proofs.parse_states_lemma. Qed.
Print Assumptions parse_states.

Theorem parse_states_without_dup :
  forall n states, has_known_dup n [] states = false ->
    Helpers.parse_states n states = (false, filter (known n) states) /\
    parse_ok n states (snd (Helpers.parse_states n states)) = true.
Proof. exact C20Proofs.parse_states_partial_lemma. Qed.
Print Assumptions parse_states_without_dup.

Theorem parse_states_with_dup :
  forall n states, has_known_dup n [] states = true ->
    Helpers.parse_states n states = (true, uniq (filter (known n) states)).
Proof. exact C20Proofs.parse_states_dup_lemma. Qed.
Print Assumptions parse_states_with_dup.

Theorem parse_states_unfixed_refuted :
  exists n states x, known n x = false /\ In x (snd (parse_states_k false n states)) /\
    parse_ok n states (snd (parse_states_k false n states)) = false.
Proof. exact C20Proofs.parse_states_unfixed_refuted_lemma. Qed.
Print Assumptions parse_states_unfixed_refuted.

Theorem must_parse_states_spec :
  forall n states r, must_parse_states n states = Some r ->
    NoDup r /\ (forall x, In x r <-> In x states) /\ forallb (known n) r = true.
Proof. exact C20Proofs.must_parse_lemma. Qed.
Print Assumptions must_parse_states_spec.

(* ================================================================== *)
(* IsQueued / IsQueuedAbove / WillBe                                   *)

(* no queue query panics, the empty queue with PositionFirst included *)
Theorem is_queued_total :
  forall n queue q, is_queued n queue q <> None.
Proof. exact C20Proofs.is_queued_total_lemma. Qed.
Print Assumptions is_queued_total.

Theorem will_be_total :
  forall n queue states pos,
    will_be n queue states pos <> None /\ will_be_removed n queue states pos <> None.
Proof. exact C20Proofs.will_be_total_lemma. Qed.
Print Assumptions will_be_total.

Theorem is_queued_unfixed_refuted :
  exists la n q, is_queued_k false la n [] q = None.
Proof. exact C20Proofs.is_queued_unfixed_refuted_lemma. Qed.
Print Assumptions is_queued_unfixed_refuted.

(* intended: the reported index designates a matching mutation *)
Theorem is_queued_sound_refuted :
  exists n queue q f i t, is_queued n queue q = Some (f, i, t) /\
    is_queued_sound n queue q (VQ f i t) = false.
Proof. exact C20Proofs.is_queued_last_idx_refuted_lemma. Qed.
Print Assumptions is_queued_sound_refuted.

(* true for every position but PositionLast (known finding 2:242) ... *)
Theorem is_queued_sound_partial :
  forall n queue q f i t,
    qq_pos q <> 2%N ->
    is_queued n queue q = Some (f, i, t) ->
    is_queued_sound n queue q (VQ f i t) = true.
Proof. exact C20Proofs.is_queued_sound_today_lemma. Qed.
Print Assumptions is_queued_sound_partial.

(* ... and for all positions once the index is absolute (la = true) *)
Theorem is_queued_sound_with_absolute_index :
  forall fg la n queue q f i t,
    (qq_pos q <> 2%N \/ la = true) ->
    is_queued_k fg la n queue q = Some (f, i, t) ->
    is_queued_sound n queue q (VQ f i t) = true.
Proof. exact C20Proofs.is_queued_sound_lemma. Qed.
Print Assumptions is_queued_sound_with_absolute_index.

Theorem is_queued_complete_holds :
  forall fg la n queue q f i t,
    is_queued_k fg la n queue q = Some (f, i, t) ->
    is_queued_complete n queue q (VQ f i t) = true.
Proof. exact C20Proofs.is_queued_complete_lemma. Qed.
Print Assumptions is_queued_complete_holds.

Theorem is_queued_above_counts :
  forall n queue q th, (0 < th)%Z ->
    is_queued_above n queue q th =
    (th <=? Z.of_nat (length (filter (qmatch n false q) queue)))%Z.
Proof. exact C20Proofs.is_queued_above_spec_lemma. Qed.
Print Assumptions is_queued_above_counts.

(* ================================================================== *)
(* Time algebra                                                        *)

Theorem time_add_comm :
  forall t t2, length t = length t2 -> time_add t t2 = time_add t2 t.
Proof. exact C20Proofs.time_add_comm_lemma. Qed.
Print Assumptions time_add_comm.

Theorem time_add_len_mismatch :
  forall t t2, length t <> length t2 -> time_add t t2 = t.
Proof. exact C20Proofs.time_add_mismatch_lemma. Qed.
Print Assumptions time_add_len_mismatch.

(* also across uint64 overflow: arithmetic is modulo 2^64 on both sides *)
Theorem diff_since_add :
  forall t d,
    length t = length d ->
    Forall (fun x => (x < w64)%N) t -> Forall (fun x => (x < w64)%N) d ->
    diff_since (time_add t d) t = d.
Proof. exact C20Proofs.diff_since_add_lemma. Qed.
Print Assumptions diff_since_add.

Theorem diff_since_self :
  forall t, Forall (fun x => (x < w64)%N) t -> diff_since t t = repeat 0%N (length t).
Proof. exact C20Proofs.diff_since_self_lemma. Qed.
Print Assumptions diff_since_self.

Theorem sum_of_filter :
  forall t idxs s f,
    time_sum t (Some idxs) = Some s -> time_filter t idxs = Some f -> sum_all f = s.
Proof. exact C20Proofs.sum_filter_lemma. Qed.
Print Assumptions sum_of_filter.

Theorem increment_one_slot :
  forall t i, idx_in (length t) i = true ->
    exists t', increment t i = Some t' /\ length t' = length t /\
      forall j, nth j t' 0%N =
                if Nat.eqb j (Z.to_nat i) then wrap (nth j t 0%N + 1) else nth j t 0%N.
Proof. exact C20Proofs.increment_one_slot_lemma. Qed.
Print Assumptions increment_one_slot.

Theorem increment_beyond_is_identity :
  forall t i, (Z.of_nat (length t) <= i)%Z -> increment t i = Some t.
Proof. exact C20Proofs.increment_beyond_lemma. Qed.
Print Assumptions increment_beyond_is_identity.

Theorem tick_flips_parity :
  forall v, is_active_tick (wrap (v + 1)) = negb (is_active_tick v).
Proof. exact C20Proofs.tick_flips_parity_lemma. Qed.
Print Assumptions tick_flips_parity.

Theorem next_active_parity :
  forall t, is_active_tick (next_active t) = true /\ is_active_tick (next_inactive t) = false.
Proof. exact C20Proofs.next_active_is_active_lemma. Qed.
Print Assumptions next_active_parity.

Theorem new_time_spec :
  forall len active t, new_time len active = Some t ->
    length t = len /\
    forall j, (j < len)%nat -> nth j t 0%N = if zmem (Z.of_nat j) active then 1%N else 0%N.
Proof. exact C20Proofs.new_time_spec_lemma. Qed.
Print Assumptions new_time_spec.

Theorem time_active_spec :
  forall b t k,
    In k (time_active_k b t None) <->
    (k < length t)%nat /\ is_active_tick (nth k t 0%N) = true.
Proof. exact C20Proofs.time_active_spec_lemma. Qed.
Print Assumptions time_active_spec.

(* Time.ActiveStates(idxs): only the passed indexes are considered *)
Theorem time_active_filter :
  forall t idxs, active_ok t idxs (time_active t idxs) = true.
Proof. exact C20Proofs.time_active_filter_lemma. Qed.
Print Assumptions time_active_filter.

Theorem time_active_unfixed_refuted :
  exists t idxs, active_ok t (Some idxs) (time_active_k false t (Some idxs)) = false.
Proof. exact C20Proofs.time_active_unfixed_refuted_lemma. Qed.
Print Assumptions time_active_unfixed_refuted.

Theorem after_before_dual :
  forall e t t2, time_after e t t2 = time_before e t2 t.
Proof. exact C20Proofs.after_before_dual_lemma. Qed.
Print Assumptions after_before_dual.

Theorem after_or_equal_spec :
  forall t t2,
    time_after true t t2 = true <->
    (forall k, (k < length t)%nat -> (k < length t2)%nat -> (nth k t2 0 <= nth k t 0)%N).
Proof. exact C20Proofs.after_spec_lemma. Qed.
Print Assumptions after_or_equal_spec.

Theorem time_equal_strict_spec :
  forall g t t2, time_equal_k g true t t2 = Some true <-> t = t2.
Proof. exact C20Proofs.time_equal_strict_spec_lemma. Qed.
Print Assumptions time_equal_strict_spec.

Theorem time_equal_total :
  forall strict t t2, time_equal strict t t2 <> None.
Proof. exact C20Proofs.time_equal_total_lemma. Qed.
Print Assumptions time_equal_total.

Theorem time_equal_unfixed_refuted :
  exists t t2, time_equal_k false false t t2 = None.
Proof. exact C20Proofs.time_equal_unfixed_refuted_lemma. Qed.
Print Assumptions time_equal_unfixed_refuted.

(* every Time / TimeIndex helper returns (no index panic) on arguments inside
   its domain *)
Theorem time_helpers_total :
  forall op, time_in_domain op = true -> run_time op <> VPanic.
Proof. exact C20Proofs.time_ops_total_lemma. Qed.
Print Assumptions time_helpers_total.
