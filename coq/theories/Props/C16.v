(* C16 — property theorems. Nothing but statements closed by [exact]. *)
From Coq Require Import List NArith ZArith Bool Arith.
From AMV Require Import Model.DbgIndex Spec.C16.
From AMV Require Proofs.C16Proofs.
Import ListNotations.

(* (2) derived data: for ALL record lists whose time sums never decrease
   (true of every real machine: C01), every parsed record passes the run-time
   predicate of Spec/C16 (sum, diff, added, removed, touched-as-a-set), the
   error index is exactly the records with an active error state, newest
   first, and MTimeSum is the last record's sum. *)
Theorem parse_derives_from_consecutive :
  forall (n : nat) (errst : list nat) (msgs : list msg),
    sums_monotone msgs = true ->
    let '(ps, errs, mt) := parse_all n errst msgs in
    all_derived_codes n None msgs ps = [] /\
    errs = exp_errors errst msgs /\
    mt = sumN (m_clocks (last msgs dmsg)).
Proof. exact C16Proofs.parse_derives_lemma. Qed.
Print Assumptions parse_derives_from_consecutive.

Example parse_derives_nonvacuous :
  sums_monotone [mkMsg 0 [1%N; 0%N] 1 0 0 1 true false false false [0] [(None, Some 0%Z)];
                 mkMsg 1 [1%N; 1%N] 2 0 0 2 true false false false [1] []] = true.
Proof. vm_compute. reflexivity. Qed.

(* "every touched index is a state of the index" is FALSE of the faithful
   model: the steps of global handlers name the pseudo-state Any, which
   StatesToIndexes turns into -1.
     forall n errst msgs, sums_monotone msgs = true ->
       touched_codes n (fst (fst (parse_all n errst msgs))) = [] *)
Theorem touched_in_index_refuted :
  exists n errst msgs,
    sums_monotone msgs = true /\ touched_codes n (fst (fst (parse_all n errst msgs))) <> [].
Proof. exact C16Proofs.touched_in_index_refuted_lemma. Qed.
Print Assumptions touched_in_index_refuted.

(* ... true when every step endpoint (None apart) is a state of the index *)
Theorem touched_in_index_partial :
  forall n errst msgs,
    forallb (fun m => touched_in_index n (flat_map step_states (m_steps m))) msgs = true ->
    touched_codes n (fst (fst (parse_all n errst msgs))) = [].
Proof. exact C16Proofs.touched_in_index_partial_lemma. Qed.
Print Assumptions touched_in_index_partial.

(* the error index is strictly descending for ALL record lists (also through
   the "time after < time before" branch) *)
Theorem errors_desc_sorted :
  forall n errst msgs, desc_sorted (snd (fst (parse_all n errst msgs))) = true.
Proof. exact C16Proofs.errors_desc_sorted_lemma. Qed.
Print Assumptions errors_desc_sorted.

(* (3) lookups. The binary search over queue ticks is the linear scan
   "first record at or after q, else the last one, -1 when empty", given
   non-decreasing queue ticks. *)
Theorem tx_at_queue_tick_spec :
  forall (msgs : list msg) (q : N),
    qticks_monotone msgs = true ->
    tx_at_queue_tick msgs q = queue_tick_scan msgs q.
Proof. exact C16Proofs.tx_at_queue_tick_spec_lemma. Qed.
Print Assumptions tx_at_queue_tick_spec.

Theorem tx_at_htime_spec :
  forall (msgs : list msg) (t : N),
    htimes_monotone msgs = true ->
    tx_at_htime msgs t = htime_scan msgs t.
Proof. exact C16Proofs.tx_at_htime_spec_lemma. Qed.
Print Assumptions tx_at_htime_spec.

(* "TxAtMachTime = the first record with exactly that time sum, -1 when
   there is none" is FALSE of the faithful model (0 is returned when nothing
   matches; the caller in log.go tests `< 0`):
     forall ps sum, psums_monotone ps = true ->
       tx_at_mach_time ps sum = mach_time_scan ps sum *)
Theorem tx_at_mach_time_spec_refuted :
  exists (ps : list parsed) (sum : N),
    psums_monotone ps = true /\ tx_at_mach_time ps sum <> mach_time_scan ps sum.
Proof. exact C16Proofs.tx_at_mach_time_spec_refuted_lemma. Qed.
Print Assumptions tx_at_mach_time_spec_refuted.

(* ... the strongest true statement: under NON-strictly monotone sums
   (canceled transitions and queued mutations repeat the sum) the search
   returns the FIRST record with that sum, and 0 when there is none *)
Theorem tx_at_mach_time_partial :
  forall (ps : list parsed) (sum : N),
    psums_monotone ps = true ->
    tx_at_mach_time ps sum =
      (let s := mach_time_scan ps sum in if Z.eqb s (-1) then 0%Z else s).
Proof. exact C16Proofs.tx_at_mach_time_partial_lemma. Qed.
Print Assumptions tx_at_mach_time_partial.

Theorem tx_index_spec :
  forall (msgs : list msg) (id : nat), tx_index msgs id = tx_index_scan msgs id.
Proof. exact C16Proofs.tx_index_spec_lemma. Qed.
Print Assumptions tx_index_spec.

(* the bisect over the error index = "tx is an error record or one lies less
   than `distance` records before it", given a descending index ... *)
Theorem had_err_since_spec :
  forall (errors : list nat) (tx distance : Z),
    desc_sorted errors = true ->
    had_err_since errors tx distance = had_err_scan errors tx distance.
Proof. exact C16Proofs.had_err_since_spec_lemma. Qed.
Print Assumptions had_err_since_spec.

(* ... which the index built by hParseMsg always is *)
Theorem had_err_since_parsed :
  forall n errst msgs (tx distance : Z),
    let errors := snd (fst (parse_all n errst msgs)) in
    had_err_since errors tx distance = had_err_scan errors tx distance.
Proof. exact C16Proofs.had_err_since_parsed_lemma. Qed.
Print Assumptions had_err_since_parsed.

Theorem filter_index_spec :
  forall (filtered : list nat) (cursor1 : Z),
    filter_index_by_cursor1 filtered cursor1 = filter_index_scan filtered cursor1.
Proof. exact C16Proofs.filter_index_spec_lemma. Qed.
Print Assumptions filter_index_spec.

(* (4) filters. hFilterTx is the conjunction of the per-flag clauses ... *)
Theorem filter_tx_is_matches :
  forall f health ms ps i, filter_tx f health ms ps i = tx_matches f health ms ps i.
Proof. exact C16Proofs.filter_tx_matches. Qed.
Print Assumptions filter_tx_is_matches.

(* ... a recomputed list (hFilterClientTxs) holds matching records only *)
Theorem filter_sound :
  forall f health ms ps,
    filtered_sound f health ms ps (filter_client_txs f health ms ps) = true.
Proof. exact C16Proofs.filter_client_sound_lemma. Qed.
Print Assumptions filter_sound.

(* ... and after ToolToggled the shown record matches the flags the list was
   recomputed with *)
Theorem refilter_shown :
  forall fprev f active health msgs ps filtered cur,
    cursor_in_range (length msgs) cur = true ->
    (active || group_any (refilter_flags fprev f)) = true ->
    let '(fl, cu) := nav_step fprev f active health msgs ps filtered cur NRefilter in
    filtered_sound (refilter_flags fprev f) health msgs ps fl = true /\
    shown_matches (refilter_flags fprev f) health msgs ps cu = true.
Proof. exact C16Proofs.refilter_shown_lemma. Qed.
Print Assumptions refilter_shown.

(* "the list built message by message in a live session is sound" is FALSE:
   a queued auto mutation passes SkipAutoCanceledTx when it arrives (its
   execution is not there yet) and stays listed when the execution arrives
   canceled.
     forall f health ms ps, filtered_sound f health ms ps (filter_live f health ms ps) = true *)
Theorem filter_live_sound_refuted :
  exists f health ms ps,
    ps = fst (fst (parse_all 2 [1] ms)) /\
    filtered_sound f health ms ps (filter_live f health ms ps) = false.
Proof. exact C16Proofs.filter_live_sound_refuted_lemma. Qed.
Print Assumptions filter_live_sound_refuted.

(* ... without SkipAutoCanceledTx the live list is the recomputed one *)
Theorem filter_live_partial :
  forall f health ms ps,
    f_autocanceled f = false ->
    filter_live f health ms ps = filter_client_txs f health ms ps.
Proof. exact C16Proofs.filter_live_partial_lemma. Qed.
Print Assumptions filter_live_partial.

(* "a set filter flag is honoured by navigation" is FALSE for FilterChecks
   alone: it is not a member of the Filters state group, so filtersActive()
   is false, nothing is skipped and the list is not recomputed. *)
Theorem filter_checks_only_refuted :
  exists f health msgs ps,
    f_checks f = true /\ ps = fst (fst (parse_all 2 [1] msgs)) /\
    let active := group_any f in
    let '(fl, cu) := nav_step f f active health msgs ps [] 0%Z NRefilter in
    let '(fl2, cu2) := nav_step f f active health msgs ps fl cu (NFwd 1) in
    shown_matches f health msgs ps cu2 = false.
Proof. exact C16Proofs.filter_checks_only_refuted_lemma. Qed.
Print Assumptions filter_checks_only_refuted.

(* navigation: every command leaves the cursor on no record or, when
   listing is in force, on a listed one *)
Theorem nav_cursor_shown :
  forall fprev f active health msgs ps filtered cur c,
    cursor_ok active filtered (length msgs) cur = true ->
    let '(fl, cu) := nav_step fprev f active health msgs ps filtered cur c in
    cursor_ok active fl (length msgs) cu = true.
Proof. exact C16Proofs.nav_cursor_shown_lemma. Qed.
Print Assumptions nav_cursor_shown.

(* forward then back from a shown record returns to it (whenever forward
   moved at all), with or without filters *)
Theorem fwd_back_id :
  forall fprev f active health msgs ps filtered c0 a b,
    (a <= 1)%Z -> (b <= 1)%Z ->
    cursor_ok active filtered (length msgs) c0 = true ->
    let c1 := snd (nav_step fprev f active health msgs ps filtered c0 (NFwd a)) in
    let c2 := snd (nav_step fprev f active health msgs ps filtered c1 (NBack b)) in
    fwd_back_ok c0 c1 c2 = true.
Proof. exact C16Proofs.fwd_back_id_lemma. Qed.
Print Assumptions fwd_back_id.

Example fwd_back_nonvacuous :
  let filtered := [0; 2; 5] in
  cursor_ok true filtered 6 1 = true /\
  filter_cursor true filtered 6 1 2 false = 3%Z /\
  filter_cursor true filtered 6 3 2 true = 1%Z.
Proof. vm_compute. repeat split; reflexivity. Qed.

(* (4b) several clients. One debugger, two connected clients (Model/DbgIndex:
   dbg, dbg_step), any history of messages arriving for either client,
   filter toggles, client switches and cursor commands.

   Selecting the other client leaves, as its view, exactly the records THAT
   client has received that pass the flags of THAT moment: a function of
   (its records, the flags) alone, whenever the filters were toggled and
   whoever was selected then. *)
Theorem select_view_history_independent :
  forall (health : list nat) (f0 : filters) (evs : list event) (who : bool),
    let d := run_events health (dbg_init f0) evs in
    d_sel d <> who ->
    group_any (flags_after f0 evs) = true ->
    let d' := dbg_step health d (ESelect who) in
    d_sel d' = who /\
    d_flags d' = flags_after f0 evs /\
    c_filtered (sel_client d') =
      filter_client_txs (flags_after f0 evs) health
        (map fst (arrived who evs)) (map snd (arrived who evs)).
Proof. exact C16Proofs.select_view_lemma. Qed.
Print Assumptions select_view_history_independent.

(* "at EVERY moment the view of the selected client is the records it has
   received that pass the current flags" is FALSE of the faithful model:
     forall health f0 evs,
       let d := run_events health (dbg_init f0) evs in
       group_any (flags_after f0 evs) = true ->
       c_filtered (sel_client d) =
         filter_client_txs (flags_after f0 evs) health
           (map fst (arrived (d_sel d) evs)) (map snd (arrived (d_sel d) evs))
   (witness: FilterCanceledTx switched off while FilterEmptyTx is on - the
   list is recomputed with the old FilterEmptyTx, an empty transition stays
   hidden; the other reason is filter_live_sound_refuted) *)
Theorem filter_view_history_independent_refuted :
  exists (health : list nat) (f0 : filters) (evs : list event),
    let d := run_events health (dbg_init f0) evs in
    group_any (flags_after f0 evs) = true /\
    c_filtered (sel_client d) <>
      filter_client_txs (flags_after f0 evs) health
        (map fst (arrived (d_sel d) evs)) (map snd (arrived (d_sel d) evs)).
Proof. exact C16Proofs.view_history_refuted_lemma. Qed.
Print Assumptions filter_view_history_independent_refuted.

(* ... the strongest true statement: on histories where no message arrives
   while SkipAutoCanceledTx is on and no toggle switches FilterCanceledTx /
   FilterQueuedTx off (tame_events), by induction over the history *)
Theorem filter_view_history_independent_partial :
  forall (health : list nat) (f0 : filters) (evs : list event),
    tame_events f0 evs = true ->
    let d := run_events health (dbg_init f0) evs in
    group_any (flags_after f0 evs) = true ->
    d_flags d = flags_after f0 evs /\
    c_filtered (sel_client d) =
      filter_client_txs (flags_after f0 evs) health
        (map fst (arrived (d_sel d) evs)) (map snd (arrived (d_sel d) evs)).
Proof. exact C16Proofs.view_partial_lemma. Qed.
Print Assumptions filter_view_history_independent_partial.

(* a tame history in which FilterCanceledTx is switched on while the OTHER
   client is selected: back on the first client its view has followed
   ([0; 2]: the canceled record 1 is gone), although the list built on
   arrival was [0; 1; 2] *)
Example filter_view_history_independent_nonvacuous :
  let f0 := mkFilters false false false false true false false in
  let f1 := mkFilters true false false false true false false in
  let m := fun id acc => mkMsg id [N.of_nat (S id); 0%N] (N.of_nat (S id)) 0 0 (N.of_nat (S id))
                               acc false false false [0] [] in
  let p := mkParsed 1 1 [] [] [] in
  let evs := [EArrive false (m 0 true) p; EArrive true (m 5 true) p; EArrive false (m 1 false) p;
              EArrive false (m 2 true) p; ESelect true; EToggle f1; ESelect false] in
  tame_events f0 evs = true /\
  group_any (flags_after f0 evs) = true /\
  d_sel (run_events [] (dbg_init f0) evs) = false /\
  c_filtered (get_client (run_events [] (dbg_init f0) (firstn 6 evs)) false) = [0; 1; 2] /\
  c_filtered (sel_client (run_events [] (dbg_init f0) evs)) = [0; 2].
Proof. vm_compute. repeat split; reflexivity. Qed.

(* the cursor a client switch leaves (hScrollToTime(lastScrolledTxTime),
   else the last record, both filtered downwards) is inside the store and, when
   listing is in force, on no record or a listed one; over a recomputed view
   the shown record matches the flags *)
Theorem select_cursor_shown :
  forall (active : bool) (filtered : list nat) (msgs : list msg) (cur : Z) (last : N),
    cursor_in_range (length msgs) cur = true ->
    cursor_ok active filtered (length msgs) (select_cursor active filtered msgs cur last) = true.
Proof. exact C16Proofs.select_cursor_ok_lemma. Qed.
Print Assumptions select_cursor_shown.

Theorem select_cursor_matches :
  forall (f : filters) (health : list nat) (msgs : list msg) (ps : list parsed) (cur : Z) (last : N),
    cursor_in_range (length msgs) cur = true ->
    let fl := filter_client_txs f health msgs ps in
    let cu := select_cursor true fl msgs cur last in
    cursor_ok true fl (length msgs) cu = true /\ shown_matches f health msgs ps cu = true.
Proof. exact C16Proofs.select_cursor_shown_lemma. Qed.
Print Assumptions select_cursor_matches.

(* over a recomputed view (what a client switch leaves) every cursor command
   comes to rest on the FIRST matching record in its direction: the run-time
   predicate scan_codes (68 shows a hidden record, 69 passes over a matching
   one) is empty; a command its Enter handler rejects leaves the cursor *)
Theorem fresh_view_steps_exact :
  forall (f : filters) (health : list nat) (ms : list msg) (ps : list parsed) (cur : Z) (c : nav_cmd),
    let fl := filter_client_txs f health ms ps in
    cursor_ok true fl (length ms) cur = true ->
    let cu := snd (nav_step f f true health ms ps fl cur c) in
    match nav_target ms cur c with
    | Some (new, back) => scan_codes f health ms ps new cu back = []
    | None => cu = cur
    end.
Proof. exact C16Proofs.fresh_view_steps_lemma. Qed.
Print Assumptions fresh_view_steps_exact.

Example fresh_view_steps_nonvacuous :
  let f := mkFilters true false false false false false false in
  let m := fun id acc => mkMsg id [1%N] 1 0 0 1 acc false false false [0] [] in
  let ms := [m 0 true; m 1 false; m 2 true] in
  let ps := [mkParsed 1 1 [] [] []; mkParsed 1 0 [] [] []; mkParsed 1 0 [] [] []] in
  filter_client_txs f [] ms ps = [0; 2] /\
  nav_target ms 1 (NFwd 1) = Some (2%Z, false) /\
  snd (nav_step f f true [] ms ps [0; 2] 1 (NFwd 1)) = 3%Z /\
  scan_codes f [] ms ps 2 2 false = [68%N] /\
  scan_codes f [] ms ps 2 1 false = [69%N].
Proof. vm_compute. repeat split; reflexivity. Qed.

(* (3b) lookups by transition id along a history. The store of a client only
   grows (SArrive) and ids are looked up at any moment (SLookup: ScrollToTx by
   id, address jumps, log links), before or after their record arrived;
   Client.TxIndex keeps a memo of the lookups that found a record
   (tx_index_memo). After ANY interleaving of arrivals and lookups the answer
   for any id is the linear scan over the records received so far: a function
   of the current record list alone. (ClearCache / the memory GC are not
   modelled.) *)
Theorem tx_index_history_independent :
  forall (evs : list store_event) (id : nat),
    let s := store_run tx_index_memo ([], []) evs in
    fst s = store_arrived evs /\
    fst (tx_index_memo (snd s) (fst s) id) = tx_index_scan (store_arrived evs) id.
Proof. exact C16Proofs.tx_index_history_lemma. Qed.
Print Assumptions tx_index_history_independent.

(* a lookup BEFORE the record arrives (answer -1, nothing remembered), the
   same lookup after: found, and remembered *)
Example tx_index_history_independent_nonvacuous :
  let m := fun id => mkMsg id [1%N] 1 0 0 1 true false false false [0] [] in
  let evs := [SArrive (m 0); SLookup 1; SArrive (m 1); SLookup 1] in
  fst (tx_index_memo [] [m 0] 1) = (-1)%Z /\
  snd (store_run tx_index_memo ([], []) (firstn 2 evs)) = [] /\
  fst (tx_index_memo (snd (store_run tx_index_memo ([], []) (firstn 3 evs)))
                     (fst (store_run tx_index_memo ([], []) (firstn 3 evs))) 1) = 1%Z /\
  snd (store_run tx_index_memo ([], []) evs) = [(1, 1%Z)].
Proof. vm_compute. repeat split; reflexivity. Qed.

(* the same statement about a memo that remembers misses too (NOT the code,
   tx_index_memo_all) is false: the witness is a lookup before arrival *)
Theorem tx_index_memo_of_misses_refuted :
  exists (evs : list store_event) (id : nat),
    let s := store_run tx_index_memo_all ([], []) evs in
    fst (tx_index_memo_all (snd s) (fst s) id) <> tx_index_scan (store_arrived evs) id.
Proof. exact C16Proofs.tx_index_memo_of_misses_refuted_lemma. Qed.
Print Assumptions tx_index_memo_of_misses_refuted.
