(* C04p — property theorems over the generalised interleaving model
   Conc/QueueLockP.v (check threads prepend tick-less mutations; re-check mode
   RmNone / RmLen / RmPending). Nothing but statements closed by [exact].
   The universally quantified theorems hold for any number of threads, any mix
   of check / non-check threads (any [muts]) and any schedule (any [sched],
   including out-of-range thread indexes). *)
From Coq Require Import List Bool Arith.
From AMV Require Import Conc.QueueLockP.
From AMV Require Proofs.C04PProofs.
Import ListNotations.

(* (1) one transition at a time: at most one thread is inside the drain
   (PLoop / PPop / PRelease) and queueProcessing is true exactly when one is;
   whatever the re-check mode *)
Theorem drain_mutex_p :
  forall (mode : rmode) (muts : list (nat * list nat * bool)) (sched : list nat),
    mutex_ok (exec_sched mode (init_cfg muts) sched) = true.
Proof. exact C04PProofs.drain_mutex_p_lemma. Qed.
Print Assumptions drain_mutex_p.

(* (2) with the queue-length re-check after the release (the code), an idle
   machine never sits on a non-empty queue, also when check threads prepend
   tick-less entries *)
Theorem no_strand_p :
  forall (muts : list (nat * list nat * bool)) (sched : list nat),
    no_strand_ok (exec_sched RmLen (init_cfg muts) sched) = true /\
    (all_done (exec_sched RmLen (init_cfg muts) sched) = true ->
     queue (sh (exec_sched RmLen (init_cfg muts) sched)) = []).
Proof. exact C04PProofs.no_strand_p_lemma. Qed.
Print Assumptions no_strand_p.

(* (3) a re-check that looks at queueTicksPending instead of the queue length
   strands a tick-less (check) entry: everybody returned, the queue is not
   empty although nothing is pending and nobody processes *)
Theorem no_strand_pending_refuted :
  exists (muts : list (nat * list nat * bool)) (sched : list nat),
    let c := exec_sched RmPending (init_cfg muts) sched in
    all_done c = true /\ queue (sh c) <> [] /\ pending (sh c) = 0 /\
    processing (sh c) = false /\ no_strand_ok c = false.
Proof. exact C04PProofs.no_strand_pending_refuted_lemma. Qed.
Print Assumptions no_strand_pending_refuted.

(* (3') the same schedule under the queue-length re-check: thread 0 re-enters
   and, scheduled to completion, drains the check entry *)
Theorem no_strand_pending_same_schedule_ok :
  let muts := [(0, [], false); (1, [], true)] in
  let sched := [0;0;0;0;0;0; 1;1;1; 0;0] in
  let cb := exec_sched RmPending (init_cfg muts) sched in
  let c1 := exec_sched RmLen (init_cfg muts) sched in
  let c2 := exec_sched RmLen (init_cfg muts) (sched ++ [0;0;0;0;0;0;0]) in
  (all_done cb = true /\ queue (sh cb) = [(1, 0)] /\
   map t_res (ths cb) = [RExecuted; RQueued 0] /\ no_strand_ok cb = false) /\
  (all_done c1 = false /\ queue (sh c1) = [(1, 0)] /\
   map t_pc (ths c1) = [PEntry; PDone] /\ no_strand_ok c1 = true) /\
  (all_done c2 = true /\ queue (sh c2) = [] /\
   map fst (rev (executed (sh c2))) = [0; 1] /\
   map t_res (ths c2) = [RExecuted; RQueued 0] /\ no_strand_ok c2 = true).
Proof. exact C04PProofs.no_strand_pending_same_schedule_ok_lemma. Qed.
Print Assumptions no_strand_pending_same_schedule_ok.
