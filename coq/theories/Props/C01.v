(* C01 — property theorems. Nothing but statements closed by [exact].

   Side conditions (defined in Proofs/C01Proofs.v, unfolded by the first
   three theorems): [calls_in_range n cs] - every state named by the calls is
   < n; [actions_in_range n acts] - the same for the nested calls of the
   scripted handlers; [fault_free acts] - no scripted handler panics or
   stalls; [Inv s] - the well-formedness invariant of machine states. *)
From Coq Require Import List NArith Bool Arith.
From AMV Require Import Base.ListSet Model.Schema Model.Resolver Model.Machine Spec.C01 Spec.C01f.
From AMV Require Proofs.C01Proofs Proofs.C01Faults.
Import ListNotations.

Theorem calls_in_range_def : forall n cs,
  C01Proofs.calls_in_range n cs = forallb (fun c => forallb (fun x => x <? n) (ac_states c)) cs.
Proof. exact C01Proofs.calls_in_range_def_lemma. Qed.
Print Assumptions calls_in_range_def.

Theorem actions_in_range_def : forall n acts,
  C01Proofs.actions_in_range n acts
  = forallb (fun a => C01Proofs.calls_in_range n (ha_calls a)) acts.
Proof. exact C01Proofs.actions_in_range_def_lemma. Qed.
Print Assumptions actions_in_range_def.

Theorem fault_free_def : forall acts,
  C01Proofs.fault_free acts <->
  forallb (fun a => match ha_fault a with FNone => true | _ => false end) acts = true.
Proof. exact C01Proofs.fault_free_def_lemma. Qed.
Print Assumptions fault_free_def.

(* the invariant: parity = activity, no duplicate active state, one tick per
   state, and every state index in the schema, the queue and the script is
   defined *)
Theorem Inv_def : forall s,
  C01Proofs.Inv s <->
  (refs_ok (sc s) = true /\ exc s < length (sc s) /\ length (clock s) = length (sc s) /\
   parity_ok (clock s) (active s) = true /\ NoDup (active s) /\
   Forall (fun mu => forall x, In x (mu_called mu) -> x < length (sc s)) (queue s) /\
   C01Proofs.actions_in_range (length (sc s)) (actions s) = true).
Proof. exact C01Proofs.Inv_def_lemma. Qed.
Print Assumptions Inv_def.

Theorem init_Inv : forall sch tp hl ex bs ql acts,
  refs_ok sch = true -> ex < length sch ->
  C01Proofs.actions_in_range (length sch) acts = true ->
  C01Proofs.Inv (init_st sch tp hl ex bs ql acts).
Proof. exact C01Proofs.init_Inv_lemma. Qed.
Print Assumptions init_Inv.

(* what the per-transition clause of the spec says when it returns no code *)
Theorem tx_clock_code_spec : forall sc t,
  tx_clock_code sc t = [] <->
  (parity_ok (tx_before t) (tx_active_before t) = true /\
   clock_le (tx_before t) (tx_after t) = true /\
   if tx_check t || negb (tx_accepted t) then clock_eqb (tx_before t) (tx_after t) = true
   else (steps_ok sc t 0 (tx_before t) (tx_after t) = true /\
         parity_ok (tx_after t) (tx_target t) = true /\
         clock_eqb (tx_after t) (tx_mach_after t) = true)).
Proof. exact C01Proofs.tx_clock_code_spec_lemma. Qed.
Print Assumptions tx_clock_code_spec.

(* ------------------------------------------------------------------ *)
(* (1) setActiveStates                                                 *)
(* ------------------------------------------------------------------ *)

(* flip => +1, stay => +0 or +2: parity = activity is re-established for any
   duplicate-free in-range target *)
Theorem set_active_parity : forall sc cl prev called tg,
  NoDup tg -> (forall x, In x tg -> x < length cl) ->
  parity_ok cl prev = true -> NoDup prev ->
  parity_ok (set_active_clock sc cl prev called tg) tg = true.
Proof. exact C01Proofs.set_active_parity_thm. Qed.
Print Assumptions set_active_parity.

Theorem set_active_monotone : forall sc cl prev called tg,
  clock_le cl (set_active_clock sc cl prev called tg) = true.
Proof. exact C01Proofs.set_active_monotone_lemma. Qed.
Print Assumptions set_active_monotone.

(* the documented step sizes, for any record that carries the arguments *)
Theorem set_active_steps : forall sc (t : txrec) cl prev called tg,
  NoDup tg -> NoDup prev ->
  tx_called t = called -> tx_active_before t = prev -> tx_target t = tg ->
  steps_ok sc t 0 cl (set_active_clock sc cl prev called tg) = true.
Proof. exact C01Proofs.set_active_steps_lemma. Qed.
Print Assumptions set_active_steps.

Example set_active_parity_nonvacuous :
  let mk := fun (au mu : bool) (rq ad rm : list nat) =>
    {| s_auto := au; s_multi := mu; s_require := rq; s_add := ad; s_remove := rm; s_after := [] |} in
  let sch := [ mk false false [] [1] []; mk false true [] [] []; mk true false [1] [] [0];
               mk false true [] [] [] ] in
  let cl := [1; 0; 3; 0]%N in
  NoDup [2; 1] /\ (forall x, In x [2; 1] -> x < length cl) /\
  parity_ok cl [0; 2] = true /\ NoDup [0; 2] /\
  set_active_clock sch cl [0; 2] [1; 2] [2; 1] = [2; 1; 3; 0]%N /\
  set_active_clock sch [1; 1; 0; 0]%N [0; 1] [1] [0; 1] = [1; 3; 0; 0]%N.
Proof. exact C01Proofs.set_active_parity_nonvacuous_lemma. Qed.
Print Assumptions set_active_parity_nonvacuous.

(* the lists handed to setActiveStates: the resolver's target ... *)
Theorem target_states_NoDup : forall (c : rctx) (to_set : list nat),
  NoDup (target_states c to_set).
Proof. exact C01Proofs.target_states_NoDup_lemma. Qed.
Print Assumptions target_states_NoDup.

Theorem target_states_in_range : forall (c : rctx) (to_set : list nat),
  refs_ok (rc_schema c) = true ->
  (forall x, In x to_set -> x < length (rc_schema c)) ->
  forall x, In x (target_states c to_set) -> x < length (rc_schema c).
Proof. exact C01Proofs.target_states_in_range_lemma. Qed.
Print Assumptions target_states_in_range.

Example target_states_in_range_nonvacuous :
  let mk := fun (au mu : bool) (rq ad rm : list nat) =>
    {| s_auto := au; s_multi := mu; s_require := rq; s_add := ad; s_remove := rm; s_after := [] |} in
  let sch := [ mk false false [] [1] []; mk false true [] [] []; mk true false [1] [] [0];
               mk false true [] [] [] ] in
  let c := {| rc_schema := sch; rc_before := [1]; rc_mtype := MAdd; rc_called := [0; 2];
              rc_topology := topo_sort sch [0; 1; 2; 3] |} in
  refs_ok sch = true /\ (forall x, In x [0; 2; 1] -> x < length sch) /\
  target_states c [0; 2; 1] = [1; 2].
Proof. exact C01Proofs.target_states_in_range_nonvacuous_lemma. Qed.
Print Assumptions target_states_in_range_nonvacuous.

(* ... and recoverFinalPhase's list *)
Theorem recover_walk_NoDup : forall finals to enters found act,
  NoDup act -> NoDup (recover_walk to enters found finals act).
Proof. exact C01Proofs.recover_walk_NoDup_lemma. Qed.
Print Assumptions recover_walk_NoDup.

Theorem recover_walk_in_range : forall n finals to enters found act,
  (forall x, In x finals -> x < n) -> (forall x, In x act -> x < n) ->
  forall x, In x (recover_walk to enters found finals act) -> x < n.
Proof. exact C01Proofs.recover_walk_in_range_lemma. Qed.
Print Assumptions recover_walk_in_range.

(* ------------------------------------------------------------------ *)
(* (2) parity = activity at every observable moment, faults included   *)
(* ------------------------------------------------------------------ *)

(* one transition: the invariant is kept; the handler log only grows, by
   entries that satisfy parity; at most one record is appended, stamped with
   the clock and active set of the start, which satisfy parity *)
Theorem parity_invariant_step : forall s mu,
  C01Proofs.Inv s -> (forall x, In x (mu_called mu) -> x < length (sc s)) ->
  let s' := fst (run_tx s mu) in
  C01Proofs.Inv s' /\
  (exists newh, hlog s' = newh ++ hlog s /\
     forallb (fun h => parity_ok (hl_clock h) (hl_active h)) newh = true) /\
  (txs s' = txs s \/
   exists rec, txs s' = rec :: txs s /\ tx_before rec = clock s /\ tx_active_before rec = active s /\
               parity_ok (tx_before rec) (tx_active_before rec) = true).
Proof. exact C01Proofs.parity_invariant_step_lemma. Qed.
Print Assumptions parity_invariant_step.

(* a transition whose final handler AState panics and is recovered *)
Example parity_invariant_step_nonvacuous :
  let mk := fun (au mu : bool) (rq ad rm : list nat) =>
    {| s_auto := au; s_multi := mu; s_require := rq; s_add := ad; s_remove := rm; s_after := [] |} in
  let sch := [ mk false false [] [1] []; mk false true [] [] []; mk true false [1] [] [0];
               mk false true [] [] [] ] in
  let bs := [[HEnter 0; HState 0; HExit 0; HEnd 0; HState 1; HAnyState; HAnyEnter; HSelf 1;
              HState 2; HEnter 2]] in
  let act := fun f => {| ha_ret := true; ha_calls := []; ha_fault := f |} in
  let s := init_st sch (topo_sort sch [0; 1; 2; 3]) [] 3 bs 1000 [act FNone; act FNone; act FPanic] in
  let mu := {| mu_type := MAdd; mu_called := [0]; mu_auto := false; mu_check := false;
               mu_args := false; mu_qtick := 2 |} in
  C01Proofs.Inv s /\ (forall x, In x (mu_called mu) -> x < length (sc s)) /\
  length (txs (fst (run_tx s mu))) = 1 /\ length (hlog (fst (run_tx s mu))) = 3 /\
  clock (fst (run_tx s mu)) = [2; 2; 0; 0]%N /\ active (fst (run_tx s mu)) = [].
Proof. exact C01Proofs.parity_invariant_step_nonvacuous_lemma. Qed.
Print Assumptions parity_invariant_step_nonvacuous.

Theorem parity_invariant : forall fuel sch tp hl ex bs ql acts cs,
  refs_ok sch = true -> ex < length sch ->
  C01Proofs.actions_in_range (length sch) acts = true ->
  C01Proofs.calls_in_range (length sch) cs = true ->
  let tr := run fuel (init_st sch tp hl ex bs ql acts) cs in
  forallb (fun c => parity_ok (co_time c) (co_active c)) (tr_calls tr) = true /\
  forallb (fun h => parity_ok (hl_clock h) (hl_active h)) (tr_hlog tr) = true /\
  forallb (fun t => parity_ok (tx_before t) (tx_active_before t)) (tr_txs tr) = true.
Proof. exact C01Proofs.parity_invariant_lemma. Qed.
Print Assumptions parity_invariant.

(* a run with a recovered panic in a final handler, nested calls, auto and
   check transitions *)
Example parity_invariant_nonvacuous :
  let mk := fun (au mu : bool) (rq ad rm : list nat) =>
    {| s_auto := au; s_multi := mu; s_require := rq; s_add := ad; s_remove := rm; s_after := [] |} in
  let sch := [ mk false false [] [1] []; mk false true [] [] []; mk true false [1] [] [0];
               mk false true [] [] [] ] in
  let bs := [[HEnter 0; HState 0; HExit 0; HEnd 0; HState 1; HAnyState; HAnyEnter; HSelf 1;
              HState 2; HEnter 2]] in
  let act := fun f => {| ha_ret := true; ha_calls := []; ha_fault := f |} in
  let call := fun k l => {| ac_kind := k; ac_states := l; ac_args := false |} in
  let acts := [act FNone; act FNone; act FPanic] in
  let cs := [ call KAdd [0]; call KAdd [1]; call KRemove [2]; call KCanRemove [1];
              call KSet [1; 0]; call KToggle [1]; call KAddErr [] ] in
  let tr := run 200 (init_st sch (topo_sort sch [0; 1; 2; 3]) [] 3 bs 1000 acts) cs in
  refs_ok sch = true /\ 3 < length sch /\
  C01Proofs.actions_in_range (length sch) acts = true /\
  C01Proofs.calls_in_range (length sch) cs = true /\
  length (tr_calls tr) = 7 /\ length (tr_txs tr) = 14 /\ length (tr_hlog tr) = 38 /\
  map co_err (tr_calls tr) = [2; 2; 2; 2; 2; 2; 1]%N /\
  map co_time (tr_calls tr)
  = [[2; 2; 0; 1]; [2; 3; 1; 1]; [2; 3; 3; 1]; [2; 3; 3; 1]; [4; 5; 5; 2]; [4; 6; 6; 2]; [4; 6; 6; 3]]%N /\
  map co_active (tr_calls tr) = [[3]; [3; 1; 2]; [3; 1; 2]; [3; 1; 2]; [1; 2]; []; [3]].
Proof. exact C01Proofs.parity_invariant_nonvacuous_lemma. Qed.
Print Assumptions parity_invariant_nonvacuous.

(* ------------------------------------------------------------------ *)
(* (3) ticks never decrease, faults included                           *)
(* ------------------------------------------------------------------ *)

Theorem ticks_monotone_step : forall s mu,
  C01Proofs.Inv s -> (forall x, In x (mu_called mu) -> x < length (sc s)) ->
  let s' := fst (run_tx s mu) in
  clock_le (clock s) (clock s') = true /\
  (txs s' = txs s \/
   exists rec, txs s' = rec :: txs s /\ tx_before rec = clock s /\
               clock_le (tx_before rec) (tx_after rec) = true /\
               clock_le (tx_after rec) (clock s') = true).
Proof. exact C01Proofs.ticks_monotone_step_lemma. Qed.
Print Assumptions ticks_monotone_step.

(* the two chains of c01_codes (nonvacuous: see parity_invariant_nonvacuous,
   same hypotheses) *)
Theorem ticks_monotone : forall fuel sch tp hl ex bs ql acts cs,
  refs_ok sch = true -> ex < length sch ->
  C01Proofs.actions_in_range (length sch) acts = true ->
  C01Proofs.calls_in_range (length sch) cs = true ->
  let tr := run fuel (init_st sch tp hl ex bs ql acts) cs in
  match tr_txs tr with
  | [] => True
  | t :: _ => chain_le (tx_before t)
                (flat_map (fun t => [tx_before t; tx_after t]) (tr_txs tr)) = true
  end /\
  match tr_calls tr with
  | [] => True
  | c :: r => chain_le (co_time c) (map co_time r) = true
  end.
Proof. exact C01Proofs.ticks_monotone_lemma. Qed.
Print Assumptions ticks_monotone.

(* ------------------------------------------------------------------ *)
(* (4) the documented step sizes, fault-free scripts                   *)
(* ------------------------------------------------------------------ *)

(* [loop_dead] is never set by the model since the fix of recoverToErr; it is
   false in [init_st] and kept by every operation *)
Theorem step_sizes_step : forall s mu,
  C01Proofs.Inv s -> (forall x, In x (mu_called mu) -> x < length (sc s)) ->
  C01Proofs.fault_free (actions s) -> loop_dead s = false ->
  let s' := fst (run_tx s mu) in
  C01Proofs.fault_free (actions s') /\ loop_dead s' = false /\
  (txs s' = txs s \/ exists rec, txs s' = rec :: txs s /\ tx_clock_code (sc s) rec = []).
Proof. exact C01Proofs.step_sizes_step_lemma. Qed.
Print Assumptions step_sizes_step.

Example step_sizes_step_nonvacuous :
  let mk := fun (au mu : bool) (rq ad rm : list nat) =>
    {| s_auto := au; s_multi := mu; s_require := rq; s_add := ad; s_remove := rm; s_after := [] |} in
  let sch := [ mk false false [] [1] []; mk false true [] [] []; mk true false [1] [] [0];
               mk false true [] [] [] ] in
  let bs := [[HEnter 0; HState 0; HExit 0; HEnd 0; HState 1; HAnyState; HAnyEnter; HSelf 1;
              HState 2; HEnter 2]] in
  let act := fun cs => {| ha_ret := true; ha_calls := cs; ha_fault := FNone |} in
  let call := fun k l => {| ac_kind := k; ac_states := l; ac_args := false |} in
  let acts := [act [call KAdd [1]]; act []; act [call KCanAdd [2]]] in
  let s := init_st sch (topo_sort sch [0; 1; 2; 3]) [] 3 bs 1000 acts in
  let mu := {| mu_type := MAdd; mu_called := [0]; mu_auto := false; mu_check := false;
               mu_args := false; mu_qtick := 2 |} in
  C01Proofs.Inv s /\ (forall x, In x (mu_called mu) -> x < length (sc s)) /\
  C01Proofs.fault_free (actions s) /\ loop_dead s = false /\
  length (txs (fst (run_tx s mu))) = 1 /\
  clock (fst (run_tx s mu)) = [1; 1; 0; 0]%N /\ active (fst (run_tx s mu)) = [0; 1].
Proof. exact C01Proofs.step_sizes_step_nonvacuous_lemma. Qed.
Print Assumptions step_sizes_step_nonvacuous.

Theorem step_sizes : forall fuel sch tp hl ex bs ql acts cs,
  refs_ok sch = true -> ex < length sch ->
  C01Proofs.actions_in_range (length sch) acts = true ->
  C01Proofs.calls_in_range (length sch) cs = true ->
  C01Proofs.fault_free acts ->
  let tr := run fuel (init_st sch tp hl ex bs ql acts) cs in
  forall t, In t (tr_txs tr) -> tx_clock_code sch t = [].
Proof. exact C01Proofs.step_sizes_lemma. Qed.
Print Assumptions step_sizes.

(* ------------------------------------------------------------------ *)
(* (5) C01 holds of every fault-free run of the model                  *)
(* ------------------------------------------------------------------ *)

Theorem c01_holds : forall fuel sch tp hl ex bs ql acts cs,
  refs_ok sch = true -> ex < length sch ->
  C01Proofs.actions_in_range (length sch) acts = true ->
  C01Proofs.calls_in_range (length sch) cs = true ->
  C01Proofs.fault_free acts ->
  c01_ok sch (run fuel (init_st sch tp hl ex bs ql acts) cs) = true.
Proof. exact C01Proofs.c01_holds_lemma. Qed.
Print Assumptions c01_holds.

(* 14 transitions, among them auto and check transitions, a canceled one and
   +2 steps of the Multi state 1 (also the instance for step_sizes) *)
Example c01_holds_nonvacuous :
  let mk := fun (au mu : bool) (rq ad rm : list nat) =>
    {| s_auto := au; s_multi := mu; s_require := rq; s_add := ad; s_remove := rm; s_after := [] |} in
  let sch := [ mk false false [] [1] []; mk false true [] [] []; mk true false [1] [] [0];
               mk false true [] [] [] ] in
  let bs := [[HEnter 0; HState 0; HExit 0; HEnd 0; HState 1; HAnyState; HAnyEnter; HSelf 1;
              HState 2; HEnter 2]] in
  let act := fun cs => {| ha_ret := true; ha_calls := cs; ha_fault := FNone |} in
  let call := fun k l => {| ac_kind := k; ac_states := l; ac_args := false |} in
  let acts := [act [call KAdd [1]]; act []; act [call KCanAdd [2]]] in
  let cs := [ call KAdd [0]; call KAdd [1]; call KRemove [2]; call KCanRemove [1];
              call KSet [1; 0]; call KToggle [1]; call KAddErr [] ] in
  let tr := run 200 (init_st sch (topo_sort sch [0; 1; 2; 3]) [] 3 bs 1000 acts) cs in
  refs_ok sch = true /\ 3 < length sch /\
  C01Proofs.actions_in_range (length sch) acts = true /\
  C01Proofs.calls_in_range (length sch) cs = true /\ C01Proofs.fault_free acts /\
  length (tr_txs tr) = 14 /\ length (tr_hlog tr) = 47 /\
  map co_time (tr_calls tr)
  = [[2; 3; 1; 0]; [2; 5; 1; 0]; [2; 5; 3; 0]; [2; 5; 3; 0]; [4; 7; 5; 0]; [4; 8; 6; 0]; [4; 8; 6; 1]]%N /\
  map co_active (tr_calls tr) = [[1; 2]; [1; 2]; [1; 2]; [1; 2]; [1; 2]; []; [3]] /\
  existsb (fun t => tx_check t) (tr_txs tr) = true /\
  existsb (fun t => tx_auto t) (tr_txs tr) = true /\
  existsb (fun t => negb (tx_accepted t)) (tr_txs tr) = true.
Proof. exact C01Proofs.c01_holds_nonvacuous_lemma. Qed.
Print Assumptions c01_holds_nonvacuous.

(* the fault-free hypothesis of (4)/(5) is needed: after a recovered panic in
   a final handler the transition is recorded as not accepted although its
   ticks moved (code 6) *)
Theorem c01_holds_faulty_refuted :
  exists fuel sch tp hl ex bs ql acts cs,
    refs_ok sch = true /\ ex < length sch /\
    C01Proofs.actions_in_range (length sch) acts = true /\
    C01Proofs.calls_in_range (length sch) cs = true /\
    c01_codes sch (run fuel (init_st sch tp hl ex bs ql acts) cs) = [6%N] /\
    c01_ok sch (run fuel (init_st sch tp hl ex bs ql acts) cs) = false.
Proof. exact C01Proofs.c01_holds_faulty_refuted_lemma. Qed.
Print Assumptions c01_holds_faulty_refuted.

(* ------------------------------------------------------------------ *)
(* (6) handler faults: the every-history clauses (parity in every view, *)
(*     ticks never decrease) for arbitrary fault scripts, and the       *)
(*     predicate the run-time evaluation applies                        *)
(* ------------------------------------------------------------------ *)

Theorem c01f_codes_run_any_faults : forall fuel sch tp hl ex bs ql acts cs,
  refs_ok sch = true -> ex < length sch ->
  C01Proofs.actions_in_range (length sch) acts = true ->
  C01Proofs.calls_in_range (length sch) cs = true ->
  c01f_codes (run fuel (init_st sch tp hl ex bs ql acts) cs) = [].
Proof. exact C01Faults.c01f_codes_run_any_faults_lemma. Qed.
Print Assumptions c01f_codes_run_any_faults.

(* [c01_judge]: the whole of [c01_codes] for a fault-free script, the
   every-history part when the script contains a fault *)
Theorem c01_judge_run : forall fuel sch tp hl ex bs ql acts cs,
  refs_ok sch = true -> ex < length sch ->
  C01Proofs.actions_in_range (length sch) acts = true ->
  C01Proofs.calls_in_range (length sch) cs = true ->
  c01_judge sch acts (run fuel (init_st sch tp hl ex bs ql acts) cs) = [].
Proof. exact C01Faults.c01_judge_run_lemma. Qed.
Print Assumptions c01_judge_run.

Example c01_judge_run_nonvacuous :
  let mk := fun (au mu : bool) (rq ad rm : list nat) =>
    {| s_auto := au; s_multi := mu; s_require := rq; s_add := ad; s_remove := rm; s_after := [] |} in
  let sch := [ mk false false [] [1] []; mk false true [] [] []; mk true false [1] [] [0];
               mk false true [] [] [] ] in
  let bs := [[HEnter 0; HState 0; HExit 0; HEnd 0; HState 1; HAnyState; HAnyEnter; HSelf 1;
              HState 2; HEnter 2]] in
  let act := fun f => {| ha_ret := true; ha_calls := []; ha_fault := f |} in
  let call := fun k l => {| ac_kind := k; ac_states := l; ac_args := false |} in
  let acts := [act FNone; act FNone; act FPanic] in
  let cs := [ call KAdd [0]; call KAdd [1]; call KRemove [2]; call KCanRemove [1];
              call KSet [1; 0]; call KToggle [1]; call KAddErr [] ] in
  let tr := run 200 (init_st sch (topo_sort sch [0; 1; 2; 3]) [] 3 bs 1000 acts) cs in
  script_has_faults acts = true /\ c01_judge sch acts tr = [] /\ length (tr_txs tr) = 14 /\
  c01_codes sch tr <> [].
Proof. exact C01Faults.c01_judge_run_nonvacuous_lemma. Qed.
Print Assumptions c01_judge_run_nonvacuous.
