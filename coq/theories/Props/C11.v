(* C11 — determinism: the model is a function of the schema, the state index
   order (StateNames) and the alphabetical order handed to the topological
   sort; nothing depends on a map iteration order. Nothing but statements
   closed by [exact]. *)
From Coq Require Import List NArith Bool Arith Permutation Sorted.
From AMV Require Import Base.ListSet Model.Schema Model.Resolver Model.Machine.
From AMV Require Proofs.C08C11Proofs.
Import ListNotations.

(* ------------------------------------------------------------------ *)
(* (h) the auto mutation calls its states in StateNames (index) order  *)
(* ------------------------------------------------------------------ *)

Theorem auto_candidates_sorted :
  forall (sc : schema) (active : list nat), Sorted lt (auto_candidates sc active).
Proof. exact C08C11Proofs.c11a_auto_candidates_sorted. Qed.
Print Assumptions auto_candidates_sorted.

Theorem auto_candidates_strongly_sorted :
  forall (sc : schema) (active : list nat), StronglySorted lt (auto_candidates sc active).
Proof. exact C08C11Proofs.c11a_auto_candidates_strongly_sorted. Qed.
Print Assumptions auto_candidates_strongly_sorted.

Theorem auto_candidates_NoDup :
  forall (sc : schema) (active : list nat), NoDup (auto_candidates sc active).
Proof. exact C08C11Proofs.c11a_auto_candidates_NoDup. Qed.
Print Assumptions auto_candidates_NoDup.

(* exactly the inactive Auto states that no active state Removes *)
Theorem auto_candidates_In :
  forall (sc : schema) (active : list nat) (x : nat),
    In x (auto_candidates sc active) <->
    (x < length sc /\ s_auto (sget sc x) = true /\ ~ In x active /\
     (forall a, In a active -> ~ In x (s_remove (sget sc a)))).
Proof. exact C08C11Proofs.c11a_auto_candidates_In. Qed.
Print Assumptions auto_candidates_In.

Theorem auto_candidates_nonvacuous :
  let sc := [ {| s_auto := true; s_multi := false; s_require := []; s_add := [];
                 s_remove := []; s_after := [] |};
              {| s_auto := true; s_multi := false; s_require := []; s_add := [];
                 s_remove := [0]; s_after := [] |};
              {| s_auto := true; s_multi := false; s_require := []; s_add := [];
                 s_remove := []; s_after := [] |};
              {| s_auto := false; s_multi := false; s_require := []; s_add := [];
                 s_remove := []; s_after := [] |};
              {| s_auto := true; s_multi := false; s_require := []; s_add := [];
                 s_remove := []; s_after := [] |} ] in
  auto_candidates sc [1] = [2; 4].
Proof. exact C08C11Proofs.c11a_auto_candidates_nonvacuous. Qed.
Print Assumptions auto_candidates_nonvacuous.

(* ------------------------------------------------------------------ *)
(* (i) the resolver topology: a duplicate-free post-order of Require   *)
(* ------------------------------------------------------------------ *)

Theorem topo_sort_NoDup :
  forall (sc : schema) (order : list nat), NoDup (topo_sort sc order).
Proof. exact C08C11Proofs.c11a_topo_sort_NoDup. Qed.
Print Assumptions topo_sort_NoDup.

(* every Require of a state of the output is in the output, strictly before
   it (with a Require cycle the output is [] and this is vacuous) *)
Theorem topo_sort_requires_before :
  forall (sc : schema) (order : list nat) (n r : nat),
    In n (topo_sort sc order) -> In r (s_require (sget sc n)) ->
    exists l1 l2 l3, topo_sort sc order = l1 ++ r :: l2 ++ n :: l3.
Proof. exact C08C11Proofs.c11a_topo_sort_requires_before. Qed.
Print Assumptions topo_sort_requires_before.

Theorem topo_sort_complete :
  forall (sc : schema) (order : list nat) (n : nat),
    topo_sort sc order <> [] -> In n order -> s_require (sget sc n) <> [] ->
    In n (topo_sort sc order).
Proof. exact C08C11Proofs.c11a_topo_sort_complete. Qed.
Print Assumptions topo_sort_complete.

(* 0 requires 1, 1 requires 2 and 3, 3 requires 2 *)
Theorem topo_sort_nonvacuous :
  let sc := [ {| s_auto := false; s_multi := false; s_require := [1]; s_add := [];
                 s_remove := []; s_after := [] |};
              {| s_auto := false; s_multi := false; s_require := [2; 3]; s_add := [];
                 s_remove := []; s_after := [] |};
              {| s_auto := false; s_multi := false; s_require := []; s_add := [];
                 s_remove := []; s_after := [] |};
              {| s_auto := false; s_multi := false; s_require := [2]; s_add := [];
                 s_remove := []; s_after := [] |} ] in
  topo_sort sc [0; 1; 2; 3] = [2; 3; 1; 0].
Proof. exact C08C11Proofs.c11a_topo_nonvacuous. Qed.
Print Assumptions topo_sort_nonvacuous.

(* 0 requires 1, 1 requires 2, 2 requires 0: the topology is empty *)
Theorem topo_sort_cycle_empty :
  let sc := [ {| s_auto := false; s_multi := false; s_require := [1]; s_add := [];
                 s_remove := []; s_after := [] |};
              {| s_auto := false; s_multi := false; s_require := [2]; s_add := [];
                 s_remove := []; s_after := [] |};
              {| s_auto := false; s_multi := false; s_require := [0]; s_add := [];
                 s_remove := []; s_after := [] |};
              {| s_auto := false; s_multi := false; s_require := []; s_add := [];
                 s_remove := []; s_after := [] |} ] in
  topo_sort sc [0; 1; 2; 3] = [].
Proof. exact C08C11Proofs.c11a_topo_cycle_empty. Qed.
Print Assumptions topo_sort_cycle_empty.

(* ------------------------------------------------------------------ *)
(* (j) handler maps are Go maps: the order (and multiplicity) of the   *)
(*     keys inside one binding is unobservable                         *)
(* ------------------------------------------------------------------ *)

Theorem state_order_only :
  forall fuel sch tp hl ex (bs bs' : list (list hkey)) ql acts cs,
    Forall2 (fun b b' => forall k, existsb (hkey_eqb k) b = existsb (hkey_eqb k) b') bs bs' ->
    run fuel (init_st sch tp hl ex bs ql acts) cs
    = run fuel (init_st sch tp hl ex bs' ql acts) cs.
Proof. exact C08C11Proofs.c11b_state_order_only. Qed.
Print Assumptions state_order_only.

Theorem binding_permutation_only :
  forall fuel sch tp hl ex (bs bs' : list (list hkey)) ql acts cs,
    Forall2 (@Permutation hkey) bs bs' ->
    run fuel (init_st sch tp hl ex bs ql acts) cs
    = run fuel (init_st sch tp hl ex bs' ql acts) cs.
Proof. exact C08C11Proofs.c11b_state_perm_only. Qed.
Print Assumptions binding_permutation_only.

(* one transition commutes with replacing the bindings by equivalent ones *)
Theorem run_tx_binding_order :
  forall (bs' : list (list hkey)) (s : st) (mu : mutation),
    Forall2 (fun b b' => forall k, existsb (hkey_eqb k) b = existsb (hkey_eqb k) b')
            (bindings s) bs' ->
    run_tx (C08C11Proofs.c11b_rb bs' s) mu
    = (C08C11Proofs.c11b_rb bs' (fst (run_tx s mu)), snd (run_tx s mu)).
Proof. exact C08C11Proofs.c11b_run_tx. Qed.
Print Assumptions run_tx_binding_order.

Theorem state_order_only_nonvacuous :
  let sch := [empty_sdef; empty_sdef] in
  let bs := [[HEnter 0; HState 0; HAnyState]; [HState 0; HEnter 0]] in
  let bs' := [[HAnyState; HEnter 0; HState 0; HEnter 0]; [HEnter 0; HState 0]] in
  let cs := [ {| ac_kind := KAdd; ac_states := [0]; ac_args := false |};
              {| ac_kind := KRemove; ac_states := [0]; ac_args := false |} ] in
  let acts := [ {| ha_ret := true;
                   ha_calls := [ {| ac_kind := KAdd; ac_states := [1]; ac_args := false |} ];
                   ha_fault := FNone |} ] in
  Forall2 C08C11Proofs.c11b_beq bs bs' /\ bs <> bs' /\
  ~ Forall2 (@Permutation hkey) bs bs' /\
  length (tr_hlog (run 10 (init_st sch [0; 1] [] 1 bs 10 acts) cs)) = 7 /\
  run 10 (init_st sch [0; 1] [] 1 bs 10 acts) cs
  = run 10 (init_st sch [0; 1] [] 1 bs' 10 acts) cs.
Proof. exact C08C11Proofs.c11b_nonvacuous. Qed.
Print Assumptions state_order_only_nonvacuous.
