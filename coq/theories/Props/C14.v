(* C14 — property theorems. Nothing but statements closed by [exact].
   A script is fault-free when every scripted action has [ha_fault = FNone]. *)
From Coq Require Import List NArith Bool Arith.
From AMV Require Import Base.ListSet Model.Schema Model.Resolver Model.Machine
  Spec.C01 Spec.C14 Spec.C14f.
From AMV Require Proofs.C03C14Proofs Proofs.C14fProofs.
Import ListNotations.

(* (f) the tracer events of one fault-free transition that did not crash:
   Init, Start, (Finals iff accepted and not a check), End, with nothing but
   MutationQueued events in between *)
Theorem brackets_step :
  forall s mu s' r,
    forallb (fun a => match ha_fault a with FNone => true | _ => false end) (actions s) = true ->
    loop_dead s = false -> hung s = false ->
    run_tx s mu = (s', r) -> crashed s' = false ->
    exists rec qs1 qs2,
      txs s' = rec :: txs s /\
      forallb (fun e => match e with EvQueued _ _ => true | _ => false end) qs1 = true /\
      forallb (fun e => match e with EvQueued _ _ => true | _ => false end) qs2 = true /\
      rev (evs s') = rev (evs s) ++ [EvInit; EvStart] ++ qs1
                     ++ (if tx_accepted rec && negb (tx_check rec) then [EvFinals] else [])
                     ++ qs2 ++ [EvEnd].
Proof. exact C03C14Proofs.brackets_step_lemma. Qed.
Print Assumptions brackets_step.

Example brackets_step_nonvacuous :
  let sd := fun (auto multi : bool) (rem : list nat) =>
    {| s_auto := auto; s_multi := multi; s_require := []; s_add := []; s_remove := rem;
       s_after := [] |} in
  let s := init_st [sd true false [1]; sd false false []; sd false true []]
                   [] [] 2 [] 10%N [] in
  let mu := {| mu_type := MAdd; mu_called := [1]; mu_auto := false; mu_check := false;
               mu_args := false; mu_qtick := 2 |} in
  rev (evs (fst (run_tx s mu))) = [EvInit; EvStart; EvFinals; EvQueued true false; EvEnd].
Proof. exact C03C14Proofs.brackets_step_nonvacuous_lemma. Qed.
Print Assumptions brackets_step_nonvacuous.

(* (f) on a run: the bracket parser accepts the whole event sequence and
   returns the Finals flag of every record, in order (any fuel) *)
Theorem brackets_run :
  forall fuel sch tp hl ex bs ql acts cs,
    forallb (fun a => match ha_fault a with FNone => true | _ => false end) acts = true ->
    let tr := run fuel (init_st sch tp hl ex bs ql acts) cs in
    tr_crashed tr = false ->
    brackets BIdle (tr_evs tr) []
    = Some (map (fun t => tx_accepted t && negb (tx_check t)) (tr_txs tr)).
Proof. exact C03C14Proofs.brackets_run_lemma. Qed.
Print Assumptions brackets_run.

(* (g) the time chain of a fault-free run (any fuel): every time-before is
   the previous time-after (the first one the initial clock), canceled and
   check records report no change, time-after is the machine's time at
   TransitionEnd, the last time-after is what the last call observed, and
   the machine never hangs *)
Theorem time_chain_run :
  forall fuel sch tp hl ex bs ql acts cs,
    forallb (fun a => match ha_fault a with FNone => true | _ => false end) acts = true ->
    let tr := run fuel (init_st sch tp hl ex bs ql acts) cs in
    chain_ok (map (fun _ => 0%N) sch) (tr_txs tr) = true /\
    forallb (fun t => if tx_check t || negb (tx_accepted t)
                      then clock_eqb (tx_before t) (tx_after t) else true) (tr_txs tr) = true /\
    forallb (fun t => clock_eqb (tx_after t) (tx_mach_after t)) (tr_txs tr) = true /\
    (tr_crashed tr = true \/
     match rev (tr_txs tr), rev (tr_calls tr) with
     | t :: _, c :: _ => tx_after t = co_time c
     | _, _ => True
     end) /\
    tr_hung tr = false.
Proof. exact C03C14Proofs.time_chain_run_lemma. Qed.
Print Assumptions time_chain_run.

(* (h) the trace-level statement *)
Theorem c14_codes_run :
  forall fuel sch tp hl ex bs ql acts cs,
    forallb (fun a => match ha_fault a with FNone => true | _ => false end) acts = true ->
    let tr := run fuel (init_st sch tp hl ex bs ql acts) cs in
    tr_fuel_ok tr = true -> c14_codes tr [] = [].
Proof. exact C03C14Proofs.c14_codes_run_lemma. Qed.
Print Assumptions c14_codes_run.

Example c14_codes_run_nonvacuous :
  let sd := fun (auto multi : bool) (rem : list nat) =>
    {| s_auto := auto; s_multi := multi; s_require := []; s_add := []; s_remove := rem;
       s_after := [] |} in
  let tr := run 100 (init_st [sd true false [1]; sd false false []; sd false true []]
                       [] [] 2 [[HEnter 1]] 10%N
                       [{| ha_ret := true;
                           ha_calls := [{| ac_kind := KCanAdd; ac_states := [0]; ac_args := false |}];
                           ha_fault := FNone |}])
                [{| ac_kind := KAdd; ac_states := [1]; ac_args := false |};
                 {| ac_kind := KCanRemove; ac_states := [1]; ac_args := false |}] in
  tr_fuel_ok tr = true /\ length (tr_txs tr) = 4 /\ length (tr_calls tr) = 2 /\
  c14_codes tr [] = [].
Proof. exact C03C14Proofs.c14_codes_run_nonvacuous_lemma. Qed.
Print Assumptions c14_codes_run_nonvacuous.

(* (h) needs the fuel hypothesis: a drain cut short leaves a queued mutation
   without a transition *)
Theorem c14_codes_run_fuel_refuted :
  exists fuel sch tp hl ex bs ql acts cs,
    forallb (fun a => match ha_fault a with FNone => true | _ => false end) acts = true /\
    tr_fuel_ok (run fuel (init_st sch tp hl ex bs ql acts) cs) = false /\
    c14_codes (run fuel (init_st sch tp hl ex bs ql acts) cs) [] = [142%N].
Proof. exact C03C14Proofs.c14_codes_run_fuel_refuted_lemma. Qed.
Print Assumptions c14_codes_run_fuel_refuted.

(* the predicate the check evaluates on observed traces is fault-aware
   (Spec/C14f.v: the time clauses and the Finals flag are judged "for
   transitions without handler faults", the bracket clause always); on a
   fault-free script it is c14_codes, so the theorems above speak about it *)
Theorem c14f_conservative :
  forall acts tr extra,
    forallb (fun a => match ha_fault a with FNone => true | _ => false end) acts = true ->
    c14f_codes acts tr extra = c14_codes tr extra.
Proof. exact C14fProofs.c14f_conservative_lemma. Qed.
Print Assumptions c14f_conservative.

(* ... and no fault exempts a transition from Init/Start/End once, in order *)
Theorem c14f_missing_end_flagged :
  forall acts tr extra,
    tr_crashed tr = false -> brackets BIdle (tr_evs tr) [] = None ->
    In 141%N (c14f_codes acts tr extra).
Proof. exact C14fProofs.c14f_missing_end_lemma. Qed.
Print Assumptions c14f_missing_end_flagged.

(* ------------------------------------------------------------------ *)
(* C14 under handler faults                                            *)
(* ------------------------------------------------------------------ *)
From AMV Require Proofs.C14FaultProofs.

(* the handler loop is never lost (recoverToErr restarts it): no run of the
   model hangs, whatever the scripted faults - so the theorems below need no
   hypothesis on tr_hung *)
Theorem never_hung :
  forall fuel sch tp hl ex bs ql acts cs,
    tr_hung (run fuel (init_st sch tp hl ex bs ql acts) cs) = false.
Proof. exact C14FaultProofs.never_hung_lemma. Qed.
Print Assumptions never_hung.

(* (f) under panics: every transition the machine processes is bracketed
   Init, Start, (Finals)?, End exactly once and in order, also when handlers
   panic (in negotiation handlers, in final handlers, in the handlers of
   the Exception transition itself) *)
Theorem brackets_run_faults :
  forall fuel sch tp hl ex bs ql acts cs,
    forallb (fun a => match ha_fault a with FStall => false | _ => true end) acts = true ->
    let tr := run fuel (init_st sch tp hl ex bs ql acts) cs in
    tr_crashed tr = false ->
    exists fl, brackets BIdle (tr_evs tr) [] = Some fl /\ length fl = length (tr_txs tr).
Proof. exact C14FaultProofs.brackets_run_faults_lemma. Qed.
Print Assumptions brackets_run_faults.

(* panics in Enter 0 (negotiation), in Enter 3 = the Exception handler run
   by the Exception transition, and in State 0 (final handler); 3 of the 11
   transitions are faulted *)
Example brackets_run_faults_nonvacuous :
  let mk := fun (au mu : bool) (rq ad rm : list nat) =>
    {| s_auto := au; s_multi := mu; s_require := rq; s_add := ad; s_remove := rm; s_after := [] |} in
  let sch := [ mk false false [] [1] []; mk false true [] [] []; mk true false [1] [] [0];
               mk false true [] [] [] ] in
  let bs := [[HEnter 0; HState 0; HState 1; HEnter 3; HState 3; HAnyState]] in
  let act := fun f => {| ha_ret := true; ha_calls := []; ha_fault := f |} in
  let call := fun k l => {| ac_kind := k; ac_states := l; ac_args := false |} in
  let cs := [ call KAdd [0]; call KRemove [0; 1; 3]; call KAdd [0]; call KRemove [3];
              call KAdd [1]; call KAdd [0] ] in
  let acts := [act FPanic; act FPanic; act FNone; act FNone; act FPanic] in
  let tr := run 100 (init_st sch (topo_sort sch [0; 1; 2; 3]) [] 3 bs 1000 acts) cs in
  forallb (fun a => match ha_fault a with FStall => false | _ => true end) acts = true /\
  tr_crashed tr = false /\
  map hl_key (firstn 5 (tr_hlog tr)) = [HEnter 0; HEnter 3; HAnyState; HEnter 0; HState 0] /\
  map tx_called (tr_txs tr) = [[0]; [3]; [0; 1; 3]; [0]; [3]; [2]; [3]; [2]; [1]; [2]; [0]] /\
  map (tx_faulted acts) (tr_txs tr)
  = [true; true; false; true; false; false; false; false; false; false; false] /\
  brackets BIdle (tr_evs tr) []
  = Some [false; false; true; true; true; false; true; false; true; true; false].
Proof. exact C14FaultProofs.brackets_run_faults_nonvacuous_lemma. Qed.
Print Assumptions brackets_run_faults_nonvacuous.

(* ... and in fact under any scripted faults, stalls (handler timeouts)
   included; moreover the Finals flag of every transition that consumed no
   faulty action is right *)
Theorem brackets_run_any_faults :
  forall fuel sch tp hl ex bs ql acts cs,
    let tr := run fuel (init_st sch tp hl ex bs ql acts) cs in
    tr_crashed tr = false ->
    exists fl, brackets BIdle (tr_evs tr) [] = Some fl /\ length fl = length (tr_txs tr) /\
               flags_ok_f (tx_faulted acts) fl (tr_txs tr) = true.
Proof. exact C14FaultProofs.brackets_run_any_faults_lemma. Qed.
Print Assumptions brackets_run_any_faults.

(* the same run with a stall in the AnyState handler of Remove[Exception] *)
Example brackets_run_any_faults_nonvacuous :
  let mk := fun (au mu : bool) (rq ad rm : list nat) =>
    {| s_auto := au; s_multi := mu; s_require := rq; s_add := ad; s_remove := rm; s_after := [] |} in
  let sch := [ mk false false [] [1] []; mk false true [] [] []; mk true false [1] [] [0];
               mk false true [] [] [] ] in
  let bs := [[HEnter 0; HState 0; HState 1; HEnter 3; HState 3; HAnyState]] in
  let act := fun f => {| ha_ret := true; ha_calls := []; ha_fault := f |} in
  let call := fun k l => {| ac_kind := k; ac_states := l; ac_args := false |} in
  let cs := [ call KAdd [0]; call KRemove [0; 1; 3]; call KAdd [0]; call KRemove [3];
              call KAdd [1]; call KAdd [0] ] in
  let acts := [act FPanic; act FPanic; act FNone; act FNone; act FPanic;
               act FNone; act FNone; act FNone; act FStall] in
  let tr := run 100 (init_st sch (topo_sort sch [0; 1; 2; 3]) [] 3 bs 1000 acts) cs in
  tr_crashed tr = false /\
  map hl_key (firstn 9 (tr_hlog tr))
  = [HEnter 0; HEnter 3; HAnyState; HEnter 0; HState 0; HEnter 3; HState 3; HAnyState; HAnyState] /\
  map (tx_faulted acts) (tr_txs tr)
  = [true; true; false; true; false; false; true; false; false; false] /\
  brackets BIdle (tr_evs tr) []
  = Some [false; false; true; true; true; false; true; true; true; false].
Proof. exact C14FaultProofs.brackets_run_any_faults_nonvacuous_lemma. Qed.
Print Assumptions brackets_run_any_faults_nonvacuous.

(* (h) under panics: the fault-aware trace predicate - the one the check
   evaluates on observed traces - holds on every run of the model that was
   not cut by the fuel: for the transitions without handler faults,
   time-after is the machine's time at TransitionEnd (146), canceled / check
   records report no change (145), time-before is the previous time-after
   for pairs of unfaulted transitions (144), Finals iff accepted and not a
   check (143), one record per queued mutation (142), the last report is what
   the last call observed (147) *)
Theorem c14f_codes_run_faults :
  forall fuel sch tp hl ex bs ql acts cs,
    forallb (fun a => match ha_fault a with FStall => false | _ => true end) acts = true ->
    let tr := run fuel (init_st sch tp hl ex bs ql acts) cs in
    tr_crashed tr = false -> tr_fuel_ok tr = true -> c14f_codes acts tr [] = [].
Proof. exact C14FaultProofs.c14f_codes_run_faults_lemma. Qed.
Print Assumptions c14f_codes_run_faults.

(* on this run the plain predicate c14_codes does report codes: the
   exemption of the faulted transitions is what the statement is about *)
Example c14f_codes_run_faults_nonvacuous :
  let mk := fun (au mu : bool) (rq ad rm : list nat) =>
    {| s_auto := au; s_multi := mu; s_require := rq; s_add := ad; s_remove := rm; s_after := [] |} in
  let sch := [ mk false false [] [1] []; mk false true [] [] []; mk true false [1] [] [0];
               mk false true [] [] [] ] in
  let bs := [[HEnter 0; HState 0; HState 1; HEnter 3; HState 3; HAnyState]] in
  let act := fun f => {| ha_ret := true; ha_calls := []; ha_fault := f |} in
  let call := fun k l => {| ac_kind := k; ac_states := l; ac_args := false |} in
  let cs := [ call KAdd [0]; call KRemove [0; 1; 3]; call KAdd [0]; call KRemove [3];
              call KAdd [1]; call KAdd [0] ] in
  let acts := [act FPanic; act FPanic; act FNone; act FNone; act FPanic] in
  let tr := run 100 (init_st sch (topo_sort sch [0; 1; 2; 3]) [] 3 bs 1000 acts) cs in
  forallb (fun a => match ha_fault a with FStall => false | _ => true end) acts = true /\
  tr_crashed tr = false /\ tr_fuel_ok tr = true /\
  length (tr_txs tr) = 11 /\ length (tr_calls tr) = 6 /\
  existsb (tx_faulted acts) (tr_txs tr) = true /\
  c14_codes tr [] = [143; 144; 145; 146]%N /\
  c14f_codes acts tr [] = [].
Proof. exact C14FaultProofs.c14f_codes_run_faults_nonvacuous_lemma. Qed.
Print Assumptions c14f_codes_run_faults_nonvacuous.

(* ... and under any scripted faults, stalls included, crashed or not *)
Theorem c14f_codes_run_any_faults :
  forall fuel sch tp hl ex bs ql acts cs,
    let tr := run fuel (init_st sch tp hl ex bs ql acts) cs in
    tr_fuel_ok tr = true -> c14f_codes acts tr [] = [].
Proof. exact C14FaultProofs.c14f_codes_run_any_faults_lemma. Qed.
Print Assumptions c14f_codes_run_any_faults.

Example c14f_codes_run_any_faults_nonvacuous :
  let mk := fun (au mu : bool) (rq ad rm : list nat) =>
    {| s_auto := au; s_multi := mu; s_require := rq; s_add := ad; s_remove := rm; s_after := [] |} in
  let sch := [ mk false false [] [1] []; mk false true [] [] []; mk true false [1] [] [0];
               mk false true [] [] [] ] in
  let bs := [[HEnter 0; HState 0; HState 1; HEnter 3; HState 3; HAnyState]] in
  let act := fun f => {| ha_ret := true; ha_calls := []; ha_fault := f |} in
  let call := fun k l => {| ac_kind := k; ac_states := l; ac_args := false |} in
  let cs := [ call KAdd [0]; call KRemove [0; 1; 3]; call KAdd [0]; call KRemove [3];
              call KAdd [1]; call KAdd [0] ] in
  let acts := [act FPanic; act FPanic; act FNone; act FNone; act FPanic;
               act FNone; act FNone; act FNone; act FStall] in
  let tr := run 100 (init_st sch (topo_sort sch [0; 1; 2; 3]) [] 3 bs 1000 acts) cs in
  tr_fuel_ok tr = true /\ length (tr_txs tr) = 10 /\
  length (filter (tx_faulted acts) (tr_txs tr)) = 4 /\
  c14_codes tr [] = [143; 144; 145; 146]%N /\
  c14f_codes acts tr [] = [].
Proof. exact C14FaultProofs.c14f_codes_run_any_faults_nonvacuous_lemma. Qed.
Print Assumptions c14f_codes_run_any_faults_nonvacuous.
