(* C19 — property theorems. Nothing but statements closed by [exact]. *)
From Coq Require Import List Bool Arith.
From AMV Require Import Base.ListSet Model.Schema Model.Resolver Spec.C02 Spec.C19.
From AMV Require Proofs.C19Proofs.
Import ListNotations.

(* (1) one resolution, from ANY active list, leaves at most one member of a
   safe group (pairwise Removing, at most one member is an Add target) *)
Theorem group_exclusive_step :
  forall sc topo active mt called g,
    group_safe sc g = true -> count_in g (resolve sc topo active mt called) <= 1.
Proof. exact C19Proofs.group_exclusive_step_lemma. Qed.
Print Assumptions group_exclusive_step.

Theorem group_exclusive_target :
  forall (c : rctx) (to_set g : list nat),
    group_safe (rc_schema c) g = true -> count_in g (target_states c to_set) <= 1.
Proof. exact C19Proofs.group_exclusive_target_lemma. Qed.
Print Assumptions group_exclusive_target.

(* (2) exclusivity in every reachable state *)
Theorem group_exclusive_reachable :
  forall sc topo g ops,
    group_safe sc g = true -> exclusive_ok g (reach sc topo ops) = true.
Proof. exact C19Proofs.group_exclusive_reachable_lemma. Qed.
Print Assumptions group_exclusive_reachable.

(* from an arbitrary start list that is exclusive ... *)
Theorem group_exclusive_from :
  forall sc topo g start (ops : list (mut_type * list nat)),
    group_safe sc g = true -> exclusive_ok g start = true ->
    exclusive_ok g
      (fold_left (fun act op => resolve sc topo act (fst op) (snd op)) ops start) = true.
Proof. exact C19Proofs.group_exclusive_from_lemma. Qed.
Print Assumptions group_exclusive_from.

(* ... and from any start list whatsoever once one mutation has been resolved *)
Theorem group_exclusive_after_step :
  forall sc topo g start op (ops : list (mut_type * list nat)),
    group_safe sc g = true ->
    exclusive_ok g
      (fold_left (fun act op => resolve sc topo act (fst op) (snd op)) (op :: ops) start) = true.
Proof. exact C19Proofs.group_exclusive_after_step_lemma. Qed.
Print Assumptions group_exclusive_after_step.

(* (3) every reachable state is Require-closed and duplicate-free *)
Theorem require_closed_reachable :
  forall sc topo ops, r1_ok sc (reach sc topo ops) = true.
Proof. exact C19Proofs.require_closed_reachable_lemma. Qed.
Print Assumptions require_closed_reachable.

Theorem nodup_reachable :
  forall sc topo ops, NoDup (reach sc topo ops).
Proof. exact C19Proofs.nodup_reachable_lemma. Qed.
Print Assumptions nodup_reachable.

(* (4) pairwise Removing alone is not enough: 0 Adds 1; 1 Adds the mutually
   Removing pair 2, 3, which only enter with the second parseAdd pass *)
Theorem group_safe_necessary_refuted :
  exists sc topo active mt called g,
    pairwise_removing sc g = true /\ group_safe sc g = false /\
    resolve sc topo active mt called = [3; 2; 0; 1] /\
    count_in g (resolve sc topo active mt called) >= 2.
Proof. exact C19Proofs.group_safe_necessary_refuted_lemma. Qed.
Print Assumptions group_safe_necessary_refuted.

(* group_safe is sufficient, not necessary: a state that directly Adds both
   members of a mutually Removing pair is handled by the scan *)
Example group_safe_not_necessary :
  let sd := fun (add rem : list nat) =>
    {| s_auto := false; s_multi := false; s_require := []; s_add := add;
       s_remove := rem; s_after := [] |} in
  let sc := [sd [1; 2] []; sd [] [2]; sd [] [1]] in
  group_safe sc [1; 2] = false /\ resolve sc [] [] MAdd [0] = [0; 1] /\
  count_in [1; 2] (resolve sc [] [] MAdd [0]) = 1.
Proof. exact C19Proofs.group_safe_not_necessary_lemma. Qed.
Print Assumptions group_safe_not_necessary.

(* (5) non-vacuity: 0 Start (Adds Connecting); 1 Connecting, 2 Connected
   (Require Start); 3 Disconnecting; 4 Disconnected (Auto); 1..4 mutually
   Removing; 5 Exception (Multi) *)
Example group_exclusive_nonvacuous :
  let sd := fun (auto multi : bool) (req add rem : list nat) =>
    {| s_auto := auto; s_multi := multi; s_require := req; s_add := add;
       s_remove := rem; s_after := [] |} in
  let sc := [sd false false [] [1] [];
             sd false false [0] [] [2; 3; 4];
             sd false false [0] [] [1; 3; 4];
             sd false false [] [] [1; 2; 4];
             sd true false [] [] [1; 2; 3];
             sd false true [] [] []] in
  group_safe sc [1; 2; 3; 4] = true /\
  add_targets sc [1; 2; 3; 4] = [1] /\
  require_acyclic sc = true /\
  reach sc [] [(MAdd, [0])] = [0; 1] /\
  reach sc [] [(MAdd, [0]); (MAdd, [2])] = [2; 0] /\
  reach sc [] [(MAdd, [0]); (MAdd, [2]); (MAdd, [3])] = [3; 0] /\
  reach sc [] [(MAdd, [0]); (MAdd, [2]); (MAdd, [4; 1])] = [4; 0] /\
  reach sc [] [(MAdd, [0]); (MAdd, [2]); (MAdd, [3]); (MRemove, [0])] = [3] /\
  count_in [1; 2; 3; 4] (reach sc [] [(MAdd, [0]); (MAdd, [2]); (MAdd, [3])]) = 1.
Proof. exact C19Proofs.group_exclusive_nonvacuous_lemma. Qed.
Print Assumptions group_exclusive_nonvacuous.
