(* C10 — property theorems. Nothing but statements closed by [exact]. *)
From Coq Require Import List NArith Bool Arith.
From AMV Require Import Model.RpcCodec Spec.C10.
From AMV Require Proofs.C10Proofs.
Import ListNotations.
Open Scope N_scope.

(* a concrete non-vacuity fact *)
Theorem c10_example_roundtrip :
  let c := {| sync_schema := true; shallow := false; tracked := [0%nat; 2%nat] |} in
  let s1 := {| s_time := [1; 4; 2]; s_q := 7; s_m := 0 |} in
  let s2 := {| s_time := [3; 9; 2]; s_q := 9; s_m := 0 |} in
  match calc_update c false (mk_data c s2) (mk_data c s1) with
  | Some u => roundtrip_ok c s2 (client_apply c u (mirror c s1) (s_q s1) (s_m s1)) = true
  | None => False
  end.
Proof. vm_compute. reflexivity. Qed.
Print Assumptions c10_example_roundtrip.

(* (1) deep mode round trip *)
Theorem roundtrip_deep :
  forall (c : cfg) (s1 s2 : snap) (hello : bool),
    shallow c = false ->
    length (s_time s1) = length (s_time s2) ->
    cfg_wf c (length (s_time s1)) = true ->
    snaps_in_range s1 s2 = true ->
    let last := if hello then hello_data c s1 else mk_data c s1 in
    exists u, calc_update c false (mk_data c s2) last = Some u /\
      roundtrip_deep_ok c s2 (client_apply c u (mirror c s1) (s_q s1) (s_m s1)) = true.
Proof. exact C10Proofs.roundtrip_deep_lemma. Qed.
Print Assumptions roundtrip_deep.

(* (2) a drifted mirror is rejected by the checksum *)
Theorem checksum_detects :
  forall (c : cfg) (s1 s2 : snap) (hello : bool) (t : list N) (q m : N),
    shallow c = false ->
    length (s_time s1) = length (s_time s2) ->
    cfg_wf c (length (s_time s1)) = true ->
    snaps_in_range s1 s2 = true ->
    length t = length (mirror c s1) ->
    Forall (fun x => x < w64) t -> q < w64 -> m < w32 ->
    drifted c s1 t q m = true ->
    let last := if hello then hello_data c s1 else mk_data c s1 in
    exists u, calc_update c false (mk_data c s2) last = Some u /\
      rejected (client_apply c u t q m) = true.
Proof. exact C10Proofs.checksum_detects_lemma. Qed.
Print Assumptions checksum_detects.

(* (3) shallow mode: the decoded values (acceptance bit excluded) *)
Theorem roundtrip_shallow_values :
  forall (c : cfg) (s1 s2 : snap) (hello : bool) (t : list N),
    shallow c = true ->
    length (s_time s1) = length (s_time s2) ->
    cfg_wf c (length (s_time s1)) = true ->
    Forall (fun x => x < w64) (s_time s1) -> Forall (fun x => x < w64) (s_time s2) ->
    s_q s1 <= s_q s2 -> s_q s2 - s_q s1 < w16 -> s_q s2 < w64 ->
    s_m s1 <= s_m s2 -> s_m s2 - s_m s1 < w8 -> s_m s2 < w32 ->
    length t = length (mirror c s1) -> parities t = parities (mirror c s1) ->
    Forall (fun x => x < w64) t ->
    let last := if hello then hello_data c s1 else mk_data c s1 in
    exists u, calc_update c true (mk_data c s2) last = Some u /\
      values_shallow_ok c s2 (client_apply c u t (s_q s1) (s_m s1)) = true.
Proof. exact C10Proofs.roundtrip_shallow_values_lemma. Qed.
Print Assumptions roundtrip_shallow_values.

(* (5) calcUpdateMutations: a chain of snapshots, deep mode *)
Theorem mutation_chain :
  forall (c : cfg) (ss : list snap) (s0 : snap),
    shallow c = false ->
    cfg_wf c (length (s_time s0)) = true ->
    C10Proofs.chain_ok s0 ss ->
    exists us,
      calc_update_muts c (map (mk_data c) ss) (mk_data c s0) = Some us /\
      length us = length ss /\
      C10Proofs.apply_chain c us (mirror c s0) (s_q s0) (s_m s0)
      = Some (mirror c (last ss s0), s_q (last ss s0), s_m (last ss s0)).
Proof. exact C10Proofs.mutation_chain_lemma. Qed.
Print Assumptions mutation_chain.

(* (4) refutations: defects of the modelled code *)

(* a queue-tick delta of exactly 2^16 is truncated AND accepted *)
Theorem roundtrip_queue_boundary_refuted :
  exists (c : cfg) (s1 s2 : snap),
    shallow c = false /\
    length (s_time s1) = length (s_time s2) /\
    cfg_wf c (length (s_time s1)) = true /\
    deltas_ok w32 (s_time s1) (s_time s2) = true /\
    s_q s1 <= s_q s2 /\ s_q s2 - s_q s1 = 65536 /\ s_q s2 < w64 /\
    s_m s1 <= s_m s2 /\ s_m s2 - s_m s1 < w8 /\ s_m s2 < w32 /\
    exists u t' q' m',
      calc_update c false (mk_data c s2) (mk_data c s1) = Some u /\
      client_apply c u (mirror c s1) (s_q s1) (s_m s1) = Some (t', q', m', true) /\
      q' <> s_q s2 /\
      roundtrip_deep_ok c s2 (client_apply c u (mirror c s1) (s_q s1) (s_m s1)) = false.
Proof. exact C10Proofs.roundtrip_queue_boundary_refuted_lemma. Qed.
Print Assumptions roundtrip_queue_boundary_refuted.

(* a per-state tick delta of exactly 2^32 is truncated AND accepted *)
Theorem roundtrip_tick_boundary_refuted :
  exists (c : cfg) (s1 s2 : snap),
    shallow c = false /\
    length (s_time s1) = length (s_time s2) /\
    cfg_wf c (length (s_time s1)) = true /\
    deltas_ok (w32 + 1) (s_time s1) (s_time s2) = true /\
    nth 0 (s_time s2) 0 - nth 0 (s_time s1) 0 = 4294967296 /\
    s_q s1 <= s_q s2 /\ s_q s2 - s_q s1 < w16 /\ s_q s2 < w64 /\
    s_m s1 <= s_m s2 /\ s_m s2 - s_m s1 < w8 /\ s_m s2 < w32 /\
    exists u t' q' m',
      calc_update c false (mk_data c s2) (mk_data c s1) = Some u /\
      client_apply c u (mirror c s1) (s_q s1) (s_m s1) = Some (t', q', m', true) /\
      nth 0 t' 0 <> nth 0 (mirror c s2) 0 /\
      roundtrip_deep_ok c s2 (client_apply c u (mirror c s1) (s_q s1) (s_m s1)) = false.
Proof. exact C10Proofs.roundtrip_tick_boundary_refuted_lemma. Qed.
Print Assumptions roundtrip_tick_boundary_refuted.

(* shallow mode: a faithful mirror with correct decoded values is rejected *)
Theorem shallow_accept_refuted :
  exists (c : cfg) (s1 s2 : snap),
    shallow c = true /\
    length (s_time s1) = length (s_time s2) /\
    cfg_wf c (length (s_time s1)) = true /\
    snaps_in_range s1 s2 = true /\
    exists u t' q' m',
      calc_update c true (mk_data c s2) (mk_data c s1) = Some u /\
      client_apply c u (mirror c s1) (s_q s1) (s_m s1) = Some (t', q', m', false) /\
      values_shallow_ok c s2 (client_apply c u (mirror c s1) (s_q s1) (s_m s1)) = true.
Proof. exact C10Proofs.shallow_accept_refuted_lemma. Qed.
Print Assumptions shallow_accept_refuted.

(* the same without schema sync and with no change at all between snapshots *)
Theorem shallow_accept_refuted_nosync :
  exists (c : cfg) (s1 : snap),
    shallow c = true /\ sync_schema c = false /\
    cfg_wf c (length (s_time s1)) = true /\
    snaps_in_range s1 s1 = true /\
    exists u t' q' m',
      calc_update c true (mk_data c s1) (mk_data c s1) = Some u /\
      client_apply c u (mirror c s1) (s_q s1) (s_m s1) = Some (t', q', m', false) /\
      values_shallow_ok c s1 (client_apply c u (mirror c s1) (s_q s1) (s_m s1)) = true.
Proof. exact C10Proofs.shallow_accept_refuted_nosync_lemma. Qed.
Print Assumptions shallow_accept_refuted_nosync.

(* Hello path with a non-zero machine tick: the former defect witness now
   round-trips (RemoteHello memorises the machine tick) *)
Theorem hello_machtick_roundtrip :
  exists (c : cfg) (s1 s2 : snap),
    shallow c = false /\
    length (s_time s1) = length (s_time s2) /\
    cfg_wf c (length (s_time s1)) = true /\
    snaps_in_range s1 s2 = true /\
    s_m s1 = 1 /\ s_m s2 = 1 /\
    exists u,
      calc_update c false (mk_data c s2) (hello_data c s1) = Some u /\
      client_apply c u (mirror c s1) (s_q s1) (s_m s1)
      = Some (mirror c s2, s_q s2, s_m s2, true) /\
      roundtrip_deep_ok c s2 (client_apply c u (mirror c s1) (s_q s1) (s_m s1)) = true.
Proof. exact C10Proofs.hello_machtick_roundtrip_lemma. Qed.
Print Assumptions hello_machtick_roundtrip.
