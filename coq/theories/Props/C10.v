(* C10 — property theorems. Nothing but statements closed by [exact]. *)
From Coq Require Import List NArith Bool Arith.
From AMV Require Import Model.RpcCodec Spec.C10.
Import ListNotations.
Open Scope N_scope.

(* placeholder until Proofs/C10_*.v land: a concrete non-vacuity fact *)
Theorem c10_example_roundtrip :
  let c := {| sync_schema := true; shallow := false; tracked := [0%nat; 2%nat] |} in
  let s1 := {| s_time := [1; 4; 2]; s_q := 7; s_m := 0 |} in
  let s2 := {| s_time := [3; 9; 2]; s_q := 9; s_m := 0 |} in
  match calc_update c false (mk_data c s2) (mk_data c s1) with
  | Some u => roundtrip_ok c s2 (client_apply c u (mirror c s1) (s_q s1) (s_m s1)) = true
  | None => False
  end.
Proof. vm_compute. reflexivity. Qed.
Print Assumptions c10_example_roundtrip.
