(* C08 — handler faults are contained. Property theorems about the sequential
   model (Model/Machine.v) under ARBITRARY scripts (faults anywhere, any
   number). Nothing but statements closed by [exact]. *)
From Coq Require Import List NArith Bool Arith.
From AMV Require Import Base.ListSet Model.Schema Model.Resolver Model.Machine
  Spec.C01 Spec.C08.
From AMV Require Proofs.C08C11Proofs.
Import ListNotations.

(* ------------------------------------------------------------------ *)
(* (a) no scripted fault escapes to the caller or wedges the machine   *)
(* ------------------------------------------------------------------ *)

Theorem faults_never_escape :
  forall (s : st) (mu : mutation),
    crashed s = false -> loop_dead s = false -> hung s = false ->
    crashed (fst (run_tx s mu)) = false /\ loop_dead (fst (run_tx s mu)) = false
    /\ hung (fst (run_tx s mu)) = false.
Proof. exact C08C11Proofs.faults_never_escape_lemma. Qed.
Print Assumptions faults_never_escape.

Theorem faults_never_escape_nonvacuous :
  let s := C08C11Proofs.ex_s_neg in
  crashed s = false /\ loop_dead s = false /\ hung s = false /\
  fault_at (actions s) 0 = FPanic /\
  length (hlog (fst (run_tx s (C08C11Proofs.ex_mu [1])))) = 1 /\
  crashed (fst (run_tx s (C08C11Proofs.ex_mu [1]))) = false.
Proof. exact C08C11Proofs.faults_never_escape_nonvacuous_lemma. Qed.
Print Assumptions faults_never_escape_nonvacuous.

(* the negotiation of a transition built by newTransition never reaches the
   slices.Delete(-1) crash *)
Theorem negotiation_never_crashes :
  forall (s : st) (mu : mutation) (s1 : st) (t1 : tstate) (nr : nres),
    t_accepted (new_transition s mu) = true ->
    negotiate (add_ev (add_ev s EvInit) EvStart) (new_transition s mu) = (s1, t1, nr) ->
    nr <> NCrash.
Proof. exact C08C11Proofs.negotiation_never_crashes_lemma. Qed.
Print Assumptions negotiation_never_crashes.

(* lift: every run, any schema, bindings, script and call list *)
Theorem run_never_crashes :
  forall fuel sch tp hl ex bs ql acts cs,
    tr_crashed (run fuel (init_st sch tp hl ex bs ql acts) cs) = false /\
    tr_hung (run fuel (init_st sch tp hl ex bs ql acts) cs) = false.
Proof. exact C08C11Proofs.run_never_crashes_lemma. Qed.
Print Assumptions run_never_crashes.

(* (g) the codes 81 (escaped panic) and 82 (wedged) never occur *)
Theorem c08_no_escape_codes :
  forall fuel sch tp hl ex bs ql acts cs interr,
    let tr := run fuel (init_st sch tp hl ex bs ql acts) cs in
    ~ In 81%N (c08_codes sch tp ex acts interr tr) /\
    ~ In 82%N (c08_codes sch tp ex acts interr tr).
Proof. exact C08C11Proofs.c08_no_escape_codes_lemma. Qed.
Print Assumptions c08_no_escape_codes.

(* ------------------------------------------------------------------ *)
(* the j-th handler-log entry consumes the j-th scripted action        *)
(* ------------------------------------------------------------------ *)

Theorem run_tx_consumes :
  forall (s : st) (mu : mutation) (s' : st) (r : result),
    run_tx s mu = (s', r) ->
    exists ents, hlog s' = rev ents ++ hlog s /\
                 actions s' = skipn (length ents) (actions s).
Proof. exact C08C11Proofs.run_tx_book_gen. Qed.
Print Assumptions run_tx_consumes.

(* hence, against the script of the whole run: entry j of the handler log
   consumed action j (the convention of Spec/C08.v fault_at) *)
Theorem run_tx_aligned :
  forall (acts0 : list haction) (s : st) (mu : mutation),
    actions s = skipn (length (hlog s)) acts0 ->
    actions (fst (run_tx s mu)) = skipn (length (hlog (fst (run_tx s mu)))) acts0.
Proof. exact C08C11Proofs.run_tx_aligned. Qed.
Print Assumptions run_tx_aligned.

Theorem run_aligned :
  forall fuel sch tp hl ex bs ql acts cs,
    let s1 := fst (fst (run_calls_top fuel (init_st sch tp hl ex bs ql acts) cs [])) in
    actions s1 = skipn (length (tr_hlog (run fuel (init_st sch tp hl ex bs ql acts) cs))) acts.
Proof. exact C08C11Proofs.run_aligned_lemma. Qed.
Print Assumptions run_aligned.

(* a live machine traces every transition exactly once; the record carries
   the mutation's identity (what code 84 of Spec/C08.v inspects in the
   transition that follows a recovered panic) and its handler-log range *)
Theorem run_tx_record :
  forall (s : st) (mu : mutation) (s' : st) (r : result),
    crashed s = false -> loop_dead s = false -> hung s = false ->
    run_tx s mu = (s', r) ->
    exists rec, txs s' = rec :: txs s /\
      tx_type rec = mu_type mu /\ tx_called rec = mu_called mu /\ tx_auto rec = mu_auto mu /\
      tx_check rec = mu_check mu /\ tx_qtick rec = mu_qtick mu /\
      tx_hfrom rec = length (hlog s) /\ tx_hto rec = length (hlog s') /\
      tx_mach_after rec = clock s'.
Proof. exact C08C11Proofs.run_tx_record_lemma. Qed.
Print Assumptions run_tx_record.

(* ------------------------------------------------------------------ *)
(* (b) a recovered panic becomes Add[Exception]                        *)
(* ------------------------------------------------------------------ *)

Theorem recover_to_err_prepends :
  forall (s : st) (t : tstate) (k : hkey),
    mem (exc s) (mu_called (t_mut t)) = false ->
    queue (recover_to_err s t k)
    = {| mu_type := MAdd; mu_called := [exc s]; mu_auto := false; mu_check := false;
         mu_args := true; mu_qtick := 0 |} :: queue s /\
    err_code (recover_to_err s t k) = 2%N /\
    hlog (recover_to_err s t k) = hlog s /\ actions (recover_to_err s t k) = actions s /\
    exc (recover_to_err s t k) = exc s.
Proof. exact C08C11Proofs.recover_to_err_prepends_lemma. Qed.
Print Assumptions recover_to_err_prepends.

(* a binding whose scripted action panics: recover_to_err is called on the
   state the handler left (one log entry, one action consumed) *)
Theorem call_bindings_panic_step :
  forall (s : st) (t : tstate) (k : hkey) (b : list hkey) (rest : list (list hkey))
         (bi : nat) (caught : bool),
    existsb (hkey_eqb k) b = true -> loop_dead s = false ->
    ha_fault (hd default_action (actions s)) = FPanic ->
    exists s2,
      hlog s2 = {| hl_key := k; hl_binding := bi; hl_active := active s; hl_clock := clock s;
                   hl_results := snd (run_calls (set_actions s (tl (actions s)))
                                        (ha_calls (hd default_action (actions s))));
                   hl_ret := ha_ret (hd default_action (actions s)) |} :: hlog s /\
      actions s2 = tl (actions s) /\
      call_bindings s t k (b :: rest) bi caught false =
        if is_final_key k
        then call_bindings (recover_to_err s2 t k) t k rest (S bi) true (negb (exc_called s t))
        else (recover_to_err s2 t k,
              {| hr_ok := false; hr_invalidated := negb (exc_called s t) |}).
Proof. exact C08C11Proofs.call_bindings_panic_step_lemma. Qed.
Print Assumptions call_bindings_panic_step.

(* one transition: if any consumed action panicked and the mutation did not
   call Exception itself, the transition ends with Add[Exception] at the
   FRONT of the queue and Err() = recovered panic *)
Theorem panic_makes_exception_step :
  forall (s : st) (mu : mutation) (s' : st) (r : result),
    crashed s = false -> loop_dead s = false -> hung s = false ->
    run_tx s mu = (s', r) ->
    mem (exc s) (mu_called mu) = false ->
    (exists j, j < length (hlog s') - length (hlog s) /\ fault_at (actions s) j = FPanic) ->
    hd_error (queue s') = Some {| mu_type := MAdd; mu_called := [exc s]; mu_auto := false;
                                  mu_check := false; mu_args := true; mu_qtick := 0 |}
    /\ err_code s' = 2%N.
Proof. exact C08C11Proofs.panic_makes_exception_step_lemma. Qed.
Print Assumptions panic_makes_exception_step.

Theorem panic_makes_exception_step_nonvacuous :
  let s := C08C11Proofs.ex_s_panic in
  let mu := C08C11Proofs.ex_mu [1; 2] in
  let s' := fst (run_tx s mu) in
  crashed s = false /\ loop_dead s = false /\ hung s = false /\
  mem (exc s) (mu_called mu) = false /\
  1 < length (hlog s') - length (hlog s) /\ fault_at (actions s) 1 = FPanic /\
  hd_error (queue s') = Some (C08C11Proofs.exc_mut 0) /\ err_code s' = 2%N.
Proof. exact C08C11Proofs.panic_makes_exception_nonvacuous_lemma. Qed.
Print Assumptions panic_makes_exception_step_nonvacuous.

(* ------------------------------------------------------------------ *)
(* (c) a fault in the negotiation phase changes nothing                *)
(* ------------------------------------------------------------------ *)

(* [ents] are the handler-log entries of this transition in call order;
   entry j consumed action j. ANY faulted negotiation entry (not only the
   first fault) cancels a non-auto transition (check transitions included):
   clock and active states untouched, the record not accepted and with
   TimeBefore = machine time at TransitionEnd (what code 86 of Spec/C08.v
   tests). *)
Theorem negotiation_fault_no_change_step :
  forall (s : st) (mu : mutation) (s' : st) (r : result),
    crashed s = false -> loop_dead s = false -> hung s = false ->
    mu_auto mu = false ->
    run_tx s mu = (s', r) ->
    exists ents,
      hlog s' = rev ents ++ hlog s /\ actions s' = skipn (length ents) (actions s) /\
      ((exists j h, nth_error ents j = Some h /\ is_fault (fault_at (actions s) j) = true
                    /\ is_final_key (hl_key h) = false) ->
       clock s' = clock s /\ active s' = active s /\ r = Canceled /\
       exists rec, txs s' = rec :: txs s /\ tx_accepted rec = false /\
                   tx_before rec = clock s /\ tx_mach_after rec = clock s /\
                   tx_check rec = mu_check mu).
Proof. exact C08C11Proofs.negotiation_fault_no_change_gen_lemma. Qed.
Print Assumptions negotiation_fault_no_change_step.

Theorem negotiation_fault_no_change_step_nonvacuous :
  let s := C08C11Proofs.ex_s_neg in
  let mu := C08C11Proofs.ex_mu [1] in
  let s' := fst (run_tx s mu) in
  mu_auto mu = false /\ mu_check mu = false /\
  exists h, hlog s' = rev [h] ++ hlog s /\ nth_error [h] 0 = Some h /\
            is_fault (fault_at (actions s) 0) = true /\ is_final_key (hl_key h) = false /\
            clock s' = clock s /\ active s' = active s.
Proof. exact C08C11Proofs.negotiation_fault_nonvacuous_lemma. Qed.
Print Assumptions negotiation_fault_no_change_step_nonvacuous.

Theorem negotiation_fault_no_change_step_nonvacuous_check :
  let s := C08C11Proofs.ex_s_neg in
  let mu := {| mu_type := MAdd; mu_called := [1]; mu_auto := false; mu_check := true;
               mu_args := false; mu_qtick := 0 |} in
  let s' := fst (run_tx s mu) in
  exists h rec, hlog s' = rev [h] ++ hlog s /\ nth_error [h] 0 = Some h /\
            is_fault (fault_at (actions s) 0) = true /\ is_final_key (hl_key h) = false /\
            txs s' = rec :: txs s /\ tx_check rec = true /\ tx_accepted rec = false.
Proof. exact C08C11Proofs.negotiation_fault_nonvacuous_check_lemma. Qed.
Print Assumptions negotiation_fault_no_change_step_nonvacuous_check.

(* ------------------------------------------------------------------ *)
(* (d) parity and monotone clocks through recoverFinalPhase            *)
(* ------------------------------------------------------------------ *)

Theorem recover_walk_nodup :
  forall (to : option nat) (enters : list nat) (found : bool) (finals act : list nat),
    NoDup act -> NoDup (recover_walk to enters found finals act).
Proof. exact C08C11Proofs.recover_walk_nodup_lemma. Qed.
Print Assumptions recover_walk_nodup.

(* Machine.setActiveStates re-establishes "odd tick = active" *)
Theorem set_active_clock_parity :
  forall (sch : schema) (cl : list N) (prev called target : list nat),
    parity_ok cl prev = true -> NoDup prev -> NoDup target ->
    (forall a, In a target -> a < length cl) ->
    parity_ok (set_active_clock sch cl prev called target) target = true.
Proof. exact C08C11Proofs.set_active_clock_parity. Qed.
Print Assumptions set_active_clock_parity.

Theorem set_active_clock_monotone :
  forall (sch : schema) (cl : list N) (prev called target : list nat),
    clock_le cl (set_active_clock sch cl prev called target) = true.
Proof. exact C08C11Proofs.set_active_clock_le. Qed.
Print Assumptions set_active_clock_monotone.

Theorem recover_final_phase_parity :
  forall (s : st) (t : tstate) (k : hkey),
    parity_ok (clock s) (active s) = true -> NoDup (active s) ->
    (forall x, In x (t_exits t) -> x < length (clock s)) ->
    parity_ok (clock (recover_final_phase s t k)) (active (recover_final_phase s t k)) = true
    /\ NoDup (active (recover_final_phase s t k)).
Proof. exact C08C11Proofs.recover_final_phase_parity_lemma. Qed.
Print Assumptions recover_final_phase_parity.

Theorem recover_final_phase_parity_nonvacuous :
  let s := set_mach (C08C11Proofs.ex_st [] []) [0; 1; 1; 0]%N [1; 2] in
  let t := C08C11Proofs.ex_t in
  parity_ok (clock s) (active s) = true /\
  active (recover_final_phase s t (HState 2)) = [1] /\
  clock (recover_final_phase s t (HState 2)) = [0; 1; 2; 0]%N /\
  parity_ok (clock (recover_final_phase s t (HState 2)))
            (active (recover_final_phase s t (HState 2))) = true.
Proof. exact C08C11Proofs.recover_final_phase_parity_nonvacuous_lemma. Qed.
Print Assumptions recover_final_phase_parity_nonvacuous.

Theorem recover_final_phase_monotone :
  forall (s : st) (t : tstate) (k : hkey),
    clock_le (clock s) (clock (recover_final_phase s t k)) = true.
Proof. exact C08C11Proofs.recover_final_phase_clock_le_lemma. Qed.
Print Assumptions recover_final_phase_monotone.

(* the resolver never leaves the schema (what makes the targets in range) *)
Theorem target_states_in_range :
  forall (c : rctx) (to_set : list nat),
    refs_ok (rc_schema c) = true ->
    (forall x, In x to_set -> x < length (rc_schema c)) ->
    forall x, In x (target_states c to_set) -> x < length (rc_schema c).
Proof. exact C08C11Proofs.target_states_in_range. Qed.
Print Assumptions target_states_in_range.

(* one whole transition, ANY script (panics and timeouts anywhere, auto or
   not, check or not, even if it crashed or hung): tick parity still matches
   activity, the active list stays duplicate-free, ticks only grow *)
Theorem fault_parity_step :
  forall (s : st) (mu : mutation),
    refs_ok (sc s) = true -> length (clock s) = length (sc s) ->
    (forall x, In x (mu_called mu) -> x < length (sc s)) ->
    parity_ok (clock s) (active s) = true -> NoDup (active s) ->
    parity_ok (clock (fst (run_tx s mu))) (active (fst (run_tx s mu))) = true /\
    NoDup (active (fst (run_tx s mu))) /\
    length (clock (fst (run_tx s mu))) = length (clock s) /\
    sc (fst (run_tx s mu)) = sc s /\
    clock_le (clock s) (clock (fst (run_tx s mu))) = true.
Proof. exact C08C11Proofs.fault_parity_step_lemma. Qed.
Print Assumptions fault_parity_step.

Theorem fault_parity_step_nonvacuous :
  let s := C08C11Proofs.ex_s_panic in
  let mu := C08C11Proofs.ex_mu [1; 2] in
  refs_ok (sc s) = true /\ length (clock s) = length (sc s) /\
  forallb (fun x => x <? length (sc s)) (mu_called mu) = true /\
  parity_ok (clock s) (active s) = true /\ active s = [] /\
  fault_at (actions s) 1 = FPanic /\
  clock (fst (run_tx s mu)) = [0; 1; 2; 0]%N /\ active (fst (run_tx s mu)) = [1] /\
  parity_ok (clock (fst (run_tx s mu))) (active (fst (run_tx s mu))) = true.
Proof. exact C08C11Proofs.fault_parity_step_nonvacuous_lemma. Qed.
Print Assumptions fault_parity_step_nonvacuous.

(* ------------------------------------------------------------------ *)
(* (e) the final-phase rollback                                        *)
(* ------------------------------------------------------------------ *)

(* fault in the State handler of x (x an enter, hence not an exit): exactly
   the enters at and after x are deactivated again *)
Theorem recover_walk_state :
  forall (x : nat) (exits enters act : list nat) (z : nat),
    NoDup act -> ~ In x exits ->
    (In z (recover_walk (Some x) enters false (exits ++ enters) act) <->
     In z act /\ ~ In z (from_state x enters)).
Proof. exact C08C11Proofs.recover_walk_state_lemma. Qed.
Print Assumptions recover_walk_state.

(* fault in the End handler of x (x an exit): every enter is deactivated
   again and the exits at and after x are re-activated *)
Theorem recover_walk_end :
  forall (x : nat) (exits enters act : list nat) (z : nat),
    NoDup act -> In x exits -> (forall e, In e exits -> ~ In e enters) ->
    (In z (recover_walk (Some x) enters false (exits ++ enters) act) <->
     (In z act /\ ~ In z enters) \/ In z (from_state x exits)).
Proof. exact C08C11Proofs.recover_walk_end_lemma. Qed.
Print Assumptions recover_walk_end.

(* AnyState belongs to no state: nothing is rolled back *)
Theorem recover_walk_any :
  forall (exits enters act : list nat),
    recover_walk None enters false (exits ++ enters) act = act.
Proof. exact C08C11Proofs.recover_walk_any_lemma. Qed.
Print Assumptions recover_walk_any.

Theorem recover_walk_nonvacuous :
  recover_walk (Some 4) [3; 4] false ([5; 6] ++ [3; 4]) [0; 3; 4] = [0; 3] /\
  recover_walk (Some 6) [3; 4] false ([5; 6; 7] ++ [3; 4]) [0; 3; 4] = [0; 6; 7].
Proof. exact C08C11Proofs.recover_walk_nonvacuous_lemma. Qed.
Print Assumptions recover_walk_nonvacuous.

Theorem final_rollback_state :
  forall (s : st) (t : tstate) (x z : nat),
    NoDup (active s) -> ~ In x (t_exits t) ->
    (In z (active (recover_final_phase s t (HState x))) <->
     In z (active s) /\ ~ In z (from_state x (t_enters t))).
Proof. exact C08C11Proofs.final_rollback_state_lemma. Qed.
Print Assumptions final_rollback_state.

Theorem final_rollback_end :
  forall (s : st) (t : tstate) (x z : nat),
    NoDup (active s) -> In x (t_exits t) ->
    (forall e, In e (t_exits t) -> ~ In e (t_enters t)) ->
    (In z (active (recover_final_phase s t (HEnd x))) <->
     (In z (active s) /\ ~ In z (t_enters t)) \/ In z (from_state x (t_exits t))).
Proof. exact C08C11Proofs.final_rollback_end_lemma. Qed.
Print Assumptions final_rollback_end.

Theorem final_rollback_any :
  forall (s : st) (t : tstate),
    active (recover_final_phase s t HAnyState) = active s.
Proof. exact C08C11Proofs.final_rollback_any_lemma. Qed.
Print Assumptions final_rollback_any.

(* one whole non-auto transition, any script: if ANY consumed action with a
   final-handler key was faulted, the transition is Canceled, its record is
   not accepted, and the active set is exactly the [expected] set of
   Spec/C08.v tx_fault_codes ([tg], [exits], [enters] are those of the
   record: tx_target, and the lists recomputed from tx_active_before) -
   whether recoverFinalPhase ran once (timeout, or the mutation called
   Exception) or twice (recoverToErr, then emitEvents). *)
Theorem final_rollback_step :
  forall (s : st) (mu : mutation) (s' : st) (r : result),
    crashed s = false -> loop_dead s = false -> hung s = false ->
    mu_auto mu = false ->
    run_tx s mu = (s', r) ->
    let tg := t_target (new_transition s mu) in
    let exits := sort_states (sc s) (topo s) (diff (active s) tg) in
    let enters := filter (fun x => negb (mem x (active s))
                            || (s_multi (sget (sc s) x) && mem x (mu_called mu))) tg in
    exists ents,
      hlog s' = rev ents ++ hlog s /\ actions s' = skipn (length ents) (actions s) /\
      forall j h, nth_error ents j = Some h -> is_fault (fault_at (actions s) j) = true ->
        is_final_key (hl_key h) = true ->
        r = Canceled /\
        (exists rec, txs s' = rec :: txs s /\ tx_accepted rec = false /\
                     tx_target rec = tg /\ tx_active_before rec = active s /\
                     tx_check rec = false) /\
        match hl_key h with
        | HState x => forall z, In z (active s') <-> In z tg /\ ~ In z (from_state x enters)
        | HEnd x => forall z, In z (active s') <->
                              (In z tg /\ ~ In z enters) \/ In z (from_state x exits)
        | _ => forall z, In z (active s') <-> In z tg
        end.
Proof. exact C08C11Proofs.final_rollback_step_lemma. Qed.
Print Assumptions final_rollback_step.

(* every mutation (auto too): the FIRST fault of the transition is in a final
   handler. The sets are those Spec/C08.v recomputes from the record
   (tx_target after the auto re-resolution, tx_active_before, tx_called). *)
Theorem final_rollback_first_step :
  forall (s : st) (mu : mutation) (s' : st) (r : result),
    crashed s = false -> loop_dead s = false -> hung s = false ->
    run_tx s mu = (s', r) ->
    exists ents,
      hlog s' = rev ents ++ hlog s /\ actions s' = skipn (length ents) (actions s) /\
      forall j h, nth_error ents j = Some h -> is_fault (fault_at (actions s) j) = true ->
        (forall j', j' < j -> fault_at (actions s) j' = FNone) ->
        is_final_key (hl_key h) = true ->
        r = Canceled /\
        exists rec, txs s' = rec :: txs s /\ tx_accepted rec = false /\
          tx_active_before rec = active s /\ tx_called rec = mu_called mu /\
          tx_auto rec = mu_auto mu /\ tx_check rec = false /\
          match hl_key h with
          | HState x => forall z, In z (active s') <->
              In z (tx_target rec) /\
              ~ In z (from_state x
                        (filter (fun x => negb (mem x (active s))
                                   || (s_multi (sget (sc s) x) && mem x (mu_called mu)))
                                (tx_target rec)))
          | HEnd x => forall z, In z (active s') <->
              (In z (tx_target rec) /\
               ~ In z (filter (fun x => negb (mem x (active s))
                                 || (s_multi (sget (sc s) x) && mem x (mu_called mu)))
                              (tx_target rec)))
              \/ In z (from_state x (sort_states (sc s) (topo s)
                                       (diff (active s) (tx_target rec))))
          | _ => forall z, In z (active s') <-> In z (tx_target rec)
          end.
Proof. exact C08C11Proofs.final_rollback_first_step_lemma. Qed.
Print Assumptions final_rollback_first_step.

Theorem final_rollback_first_step_nonvacuous :
  let s := C08C11Proofs.ex_s_auto in
  let mu := C08C11Proofs.ex_mu_auto in
  let s' := fst (run_tx s mu) in
  exists h rec, hlog s' = rev [h] ++ hlog s /\ nth_error [h] 0 = Some h /\
    is_fault (fault_at (actions s) 0) = true /\ hl_key h = HState 3 /\
    txs s' = rec :: txs s /\ tx_auto rec = true /\ tx_target rec = [3] /\ active s' = [].
Proof. exact C08C11Proofs.final_rollback_first_nonvacuous_lemma. Qed.
Print Assumptions final_rollback_first_step_nonvacuous.

Theorem final_rollback_step_nonvacuous :
  let s := C08C11Proofs.ex_s_stall in
  let mu := C08C11Proofs.ex_mu [1; 2] in
  let s' := fst (run_tx s mu) in
  mu_auto mu = false /\ mu_check mu = false /\
  exists h0 h, hlog s' = rev [h0; h] ++ hlog s /\ nth_error [h0; h] 1 = Some h /\
            is_fault (fault_at (actions s) 1) = true /\ hl_key h = HState 2 /\
            t_target (new_transition s mu) = [1; 2] /\ active s' = [1].
Proof. exact C08C11Proofs.final_rollback_nonvacuous_lemma. Qed.
Print Assumptions final_rollback_step_nonvacuous.

(* ------------------------------------------------------------------ *)
(* (f) the machine lives on                                            *)
(* ------------------------------------------------------------------ *)

Theorem machine_lives_on :
  forall (fuel : nat) (s : st) (first : option result) (s' : st) (r : option result),
    drain fuel s first = (s', r, true) -> crashed s' = false -> hung s' = false ->
    queue s' = [].
Proof. exact C08C11Proofs.machine_lives_on_lemma. Qed.
Print Assumptions machine_lives_on.

Theorem machine_lives_on_nonvacuous :
  let s := fst (queue_mutation C08C11Proofs.ex_s_panic MAdd [1; 2] false) in
  snd (drain 10 s None) = true /\
  crashed (fst (fst (drain 10 s None))) = false /\ hung (fst (fst (drain 10 s None))) = false /\
  length (queue s) = 1 /\ length (txs (fst (fst (drain 10 s None)))) = 3.
Proof. exact C08C11Proofs.machine_lives_on_nonvacuous_lemma. Qed.
Print Assumptions machine_lives_on_nonvacuous.

(* ------------------------------------------------------------------ *)
(* whole runs: the clauses of Spec/C08.v c08_codes for ARBITRARY       *)
(* scripts (faults anywhere, any number)                               *)
(* ------------------------------------------------------------------ *)

(* range side conditions (C08C11Proofs.states_in_range / calls_in_range /
   actions_in_range are the boolean tests "every state mentioned by the
   top-level calls / by the scripted nested calls is < length sch") *)

(* (1) code 80: the caller always sees tick parity = activity *)
Theorem run_parity :
  forall fuel sch tp hl ex bs ql acts cs,
    refs_ok sch = true -> ex < length sch ->
    C08C11Proofs.calls_in_range sch cs = true ->
    C08C11Proofs.actions_in_range sch acts = true ->
    forallb (fun c => parity_ok (co_time c) (co_active c))
            (tr_calls (run fuel (init_st sch tp hl ex bs ql acts) cs)) = true.
Proof. exact C08C11Proofs.run_parity_lemma. Qed.
Print Assumptions run_parity.

(* (2) codes 84, 86, 890, 891, 892: no record of the trace violates a
   per-transition clause, given fuel *)
Theorem run_txs_fault_codes :
  forall fuel sch tp hl ex bs ql acts cs,
    refs_ok sch = true -> ex < length sch ->
    C08C11Proofs.calls_in_range sch cs = true ->
    C08C11Proofs.actions_in_range sch acts = true ->
    let tr := run fuel (init_st sch tp hl ex bs ql acts) cs in
    tr_fuel_ok tr = true ->
    txs_fault_codes sch tp ex acts (tr_hlog tr) (tr_txs tr) = [].
Proof. exact C08C11Proofs.run_txs_fault_codes_lemma. Qed.
Print Assumptions run_txs_fault_codes.

Theorem run_no_record_codes :
  forall fuel sch tp hl ex bs ql acts cs (c : N),
    refs_ok sch = true -> ex < length sch ->
    C08C11Proofs.calls_in_range sch cs = true ->
    C08C11Proofs.actions_in_range sch acts = true ->
    let tr := run fuel (init_st sch tp hl ex bs ql acts) cs in
    tr_fuel_ok tr = true ->
    ~ In c (txs_fault_codes sch tp ex acts (tr_hlog tr) (tr_txs tr)).
Proof. exact C08C11Proofs.run_no_record_codes_lemma. Qed.
Print Assumptions run_no_record_codes.

(* the ingredients: slices of the indexed log are stable as it grows, and
   tx_fault_codes is the code-84 clause (the only one that looks at the next
   record) followed by the clauses 86 / 89x *)
Theorem tx_entries_stable :
  forall (hl more : list hlentry) (t : txrec),
    tx_hto t <= length hl -> tx_entries (hl ++ more) t = tx_entries hl t.
Proof. exact C08C11Proofs.tx_entries_stable. Qed.
Print Assumptions tx_entries_stable.

Theorem tx_fault_codes_split :
  forall sc topo ex acts hl t next,
    tx_fault_codes sc topo ex acts hl t next
    = (if C08C11Proofs.needs_exc_es ex acts (tx_entries hl t) t then
         match next with
         | Some n => if C08C11Proofs.is_exc_rec ex n then [] else [84%N]
         | None => [84%N]
         end
       else [])
      ++ C08C11Proofs.codesB_es sc topo acts (tx_entries hl t) t.
Proof. exact C08C11Proofs.tx_fault_codes_split. Qed.
Print Assumptions tx_fault_codes_split.

(* one transition of a well-formed machine: its record passes 86 / 89x
   against the final log, and a panic that asks for Exception leaves
   Add[Exception] at the front of the queue *)
Theorem run_tx_record_codes :
  forall sch tp ex acts0,
    ex < length sch -> refs_ok sch = true ->
    forall (s : st) (mu : mutation) (s' : st) (r : result),
      (crashed s = false /\ loop_dead s = false /\ hung s = false) ->
      actions s = skipn (length (hlog s)) acts0 -> topo s = tp ->
      C08C11Proofs.WF sch ex s ->
      C08C11Proofs.states_in_range sch (mu_called mu) = true ->
      run_tx s mu = (s', r) ->
      exists rec, txs s' = rec :: txs s /\
        (C08C11Proofs.is_exc_mut ex mu = true -> C08C11Proofs.is_exc_rec ex rec = true) /\
        tx_hto rec = length (hlog s') /\
        C08C11Proofs.codesB_es sch tp acts0 (tx_entries (rev (hlog s')) rec) rec = [] /\
        (C08C11Proofs.needs_exc_es ex acts0 (tx_entries (rev (hlog s')) rec) rec = true ->
         hd_error (queue s') = Some (C08C11Proofs.exc_mut ex)).
Proof. exact C08C11Proofs.run_tx_rec_codes. Qed.
Print Assumptions run_tx_record_codes.

(* (3) the property: under the range conditions, with fuel, and with every
   scripted timeout reported on ErrInternal, no code at all - whatever the
   script (auto transitions and multiple faults included) *)
Theorem c08_holds :
  forall fuel sch tp hl ex bs ql acts cs interr,
    refs_ok sch = true -> ex < length sch ->
    C08C11Proofs.calls_in_range sch cs = true ->
    C08C11Proofs.actions_in_range sch acts = true ->
    let tr := run fuel (init_st sch tp hl ex bs ql acts) cs in
    tr_fuel_ok tr = true ->
    count_stalls acts (length (tr_hlog tr)) <= interr ->
    c08_codes sch tp ex acts interr tr = [].
Proof. exact C08C11Proofs.c08_holds_lemma. Qed.
Print Assumptions c08_holds.

(* a panic in the State handler of 1 (first call) and one in the Enter
   handler of 2 (second call); each is followed by Add[Exception] *)
Theorem c08_holds_nonvacuous :
  let tr := run 20 (init_st C08C11Proofs.ex_sch [] [] 0 C08C11Proofs.ex_run_bs 100
                      C08C11Proofs.ex_run_acts) C08C11Proofs.ex_run_cs in
  refs_ok C08C11Proofs.ex_sch = true /\ 0 < length C08C11Proofs.ex_sch /\
  C08C11Proofs.calls_in_range C08C11Proofs.ex_sch C08C11Proofs.ex_run_cs = true /\
  C08C11Proofs.actions_in_range C08C11Proofs.ex_sch C08C11Proofs.ex_run_acts = true /\
  tr_fuel_ok tr = true /\
  count_stalls C08C11Proofs.ex_run_acts (length (tr_hlog tr)) <= 0 /\
  map hl_key (tr_hlog tr) = [HState 1; HEnter 2] /\
  fault_at C08C11Proofs.ex_run_acts 0 = FPanic /\
  fault_at C08C11Proofs.ex_run_acts 1 = FPanic /\
  map tx_called (tr_txs tr) = [[1]; [0]; [3]; [2]; [0]] /\
  map tx_accepted (tr_txs tr) = [false; true; true; false; true] /\
  c08_codes C08C11Proofs.ex_sch [] 0 C08C11Proofs.ex_run_acts 0 tr = [].
Proof. exact C08C11Proofs.c08_holds_nonvacuous_lemma. Qed.
Print Assumptions c08_holds_nonvacuous.

(* the range condition cannot be dropped from the rollback clause: a called
   state outside the schema becomes "active" without a clock slot, and
   Spec/C08.v reads activity from the clock *)
Theorem c08_rollback_needs_range_refuted :
  exists fuel sch tp hl ex bs ql acts cs,
    refs_ok sch = true /\ ex < length sch /\
    C08C11Proofs.actions_in_range sch acts = true /\
    C08C11Proofs.calls_in_range sch cs = false /\
    tr_fuel_ok (run fuel (init_st sch tp hl ex bs ql acts) cs) = true /\
    let tr := run fuel (init_st sch tp hl ex bs ql acts) cs in
    In 890%N (txs_fault_codes sch tp ex acts (tr_hlog tr) (tr_txs tr)).
Proof. exact C08C11Proofs.c08_rollback_needs_range_refuted_lemma. Qed.
Print Assumptions c08_rollback_needs_range_refuted.
