(* C18 - "Pipes make the target follow the source".  Property theorems over
   the delivery model Conc/Pipes.v (source toggle history -> pipe events ->
   forked calls delivered in ANY order -> target queue), stated with the
   predicates of Spec/C18.v.  Nothing but statements closed by [exact].

   [run c steps] executes a schedule: SSrc = a call on the source (SChk a
   CanAdd/CanRemove check, SVeto a mutation vetoed by a later-bound handler,
   SBar an Add of a state that Removes piped state 0, possibly vetoed), SDel i =
   the i-th in-flight forked call reaches the target, SHold / SRel = the
   target is made busy / goes on.  All theorems quantify over every
   configuration (number of states, Multi flags), every toggle history and
   every schedule of the stated class. *)
From Coq Require Import List NArith Bool Arith.
From AMV Require Import Conc.Pipes Spec.C18.
From AMV Require Proofs.C18Proofs.
Import ListNotations.

(* every source call names one of the piped states *)
Definition steps_wf (c : pcfg) (steps : list step) : bool :=
  forallb (C18Proofs.step_wf (p_n c)) steps.

(* the schedule ended in joint quiescence with target and source differing:
   state 0 of the source is [sa], of the target [ta] *)
Definition ends_differing (c : pcfg) (steps : list step) (sa ta : bool) : Prop :=
  let r := run c steps in
  quiescent r = true /\ act (c_src r) 0 = sa /\ act (t_ticks (c_tgt r)) 0 = ta /\
  follows (p_n c) (c_src r) (t_ticks (c_tgt r)) = false.

(* ---------------------------------------------------------------- source *)

(* non-flat pipes (Bind, BindMany, BindReady, BindConnected, BindErr): for
   every history and every schedule - target held or not, calls delivered in
   any order or not at all - every call on the source returns Executed
   (or Canceled by the history's own scripted veto) without waiting for the
   target *)
Theorem source_never_blocked :
  forall (c : pcfg) (steps : list step),
    p_flat c = false ->
    c_blocked (run c steps) = false /\
    src_unhindered (c_srclog (run c steps)) = true.
Proof. exact C18Proofs.source_never_blocked_lemma. Qed.
Print Assumptions source_never_blocked.

(* FALSE for flat (local) pipes: the target's transition runs inside the
   source's final handler; while it is held the source's call does not
   return.
     forall c steps, p_flat c = true -> c_blocked (run c steps) = false *)
Theorem flat_source_stuck_refuted :
  exists (c : pcfg) (steps : list step),
    p_flat c = true /\
    c_blocked (run c steps) = true /\
    src_unhindered (c_srclog (run c steps)) = false.
Proof. exact C18Proofs.flat_source_stuck_refuted_lemma. Qed.
Print Assumptions flat_source_stuck_refuted.

(* which source calls fire a pipe handler: a CanAdd1/CanRemove1 check, a
   mutation vetoed by a handler bound after the pipe (the state's own
   Enter/Exit when it runs, AnyEnter always) and an Add(Bar) vetoed by
   BarEnter after the piped state's Exit handlers ran change neither
   machine, put no call in flight and reach the target with nothing *)
Theorem check_or_veto_silent :
  forall (c : pcfg) (s : cfg) (st : step),
    C18Proofs.silent_step c s st = true ->
    let s' := exec_step c s st in
    c_src s' = c_src s /\ c_tgt s' = c_tgt s /\ c_bag s' = c_bag s /\
    c_dellog s' = c_dellog s /\ exists code, c_evlog s' = c_evlog s ++ [0%N] /\
    c_srclog s' = c_srclog s ++ [code].
Proof. exact C18Proofs.check_or_veto_silent_lemma. Qed.
Print Assumptions check_or_veto_silent.

(* ---------------------------------------------------------------- flat *)

(* flat+local pipe onto a target nobody else keeps busy: after EVERY burst
   the machines are jointly quiescent, every piped target state is active
   exactly when its source state is, and no source call was hindered *)
Theorem flat_local_follows :
  forall (c : pcfg) (steps : list step),
    p_flat c = true -> p_addonly c = false ->
    never_held c steps = true ->
    steps_wf c steps = true ->
    let r := run c steps in
    quiescent r = true /\
    follows (p_n c) (c_src r) (t_ticks (c_tgt r)) = true /\
    src_unhindered (c_srclog r) = true.
Proof. exact C18Proofs.flat_local_follows_lemma. Qed.
Print Assumptions flat_local_follows.

(* FALSE without [never_held]: on a busy target the flat pipe tests the
   target's CURRENT state, not the state its queue will produce *)
Theorem flat_busy_refuted :
  exists (c : pcfg) (steps : list step),
    p_flat c = true /\ p_addonly c = false /\ steps_wf c steps = true /\
    ends_differing c steps false true.
Proof. exact C18Proofs.flat_busy_refuted_lemma. Qed.
Print Assumptions flat_busy_refuted.

(* ---------------------------------------------------------------- non-flat *)

(* FALSE of the model (and of the code):
     forall c steps, p_flat c = false -> p_addonly c = false -> steps_wf c steps = true ->
       quiescent (run c steps) = true ->
       follows (p_n c) (c_src (run c steps)) (t_ticks (c_tgt (run c steps))) = true.
   Add then Remove on the source, the Remove's goroutine reaches the (idle)
   target first: target active, source inactive at joint quiescence *)
Theorem nonflat_reorder_refuted :
  exists (c : pcfg) (steps : list step),
    p_flat c = false /\ p_addonly c = false /\ never_held c steps = true /\
    steps_wf c steps = true /\
    ends_differing c steps false true.
Proof. exact C18Proofs.nonflat_reorder_refuted_lemma. Qed.
Print Assumptions nonflat_reorder_refuted.

(* ... it holds when the calls reach a never-held target oldest first *)
Theorem nonflat_follows_partial :
  forall (c : pcfg) (steps : list step),
    p_flat c = false -> p_addonly c = false ->
    never_held c steps = true ->
    forallb oldest_first steps = true ->
    steps_wf c steps = true ->
    let r := run c steps in
    quiescent r = true ->
    follows (p_n c) (c_src r) (t_ticks (c_tgt r)) = true.
Proof. exact C18Proofs.nonflat_follows_partial_lemma. Qed.
Print Assumptions nonflat_follows_partial.

(* ... more generally when no call overtakes an older call for the SAME
   state ([c_reord] records such an overtaking); calls for different states
   (BindMany, BindConnected) may arrive in any order *)
Theorem nonflat_follows_per_state_order :
  forall (c : pcfg) (steps : list step),
    p_flat c = false -> p_addonly c = false ->
    never_held c steps = true ->
    steps_wf c steps = true ->
    let r := run c steps in
    c_reord r = false ->
    quiescent r = true ->
    follows (p_n c) (c_src r) (t_ticks (c_tgt r)) = true.
Proof. exact C18Proofs.nonflat_follows_per_state_order_lemma. Qed.
Print Assumptions nonflat_follows_per_state_order.

(* ... and oldest-first delivery alone is NOT enough: while the target's Add
   transition is still in its negotiation phase, EvRemove sees an empty
   queue, a transition in progress and an inactive state, and returns
   Executed without queueing *)
Theorem nonflat_inorder_busy_refuted :
  exists (c : pcfg) (steps : list step),
    p_flat c = false /\ p_addonly c = false /\
    forallb oldest_first steps = true /\ steps_wf c steps = true /\
    ends_differing c steps false true.
Proof. exact C18Proofs.nonflat_inorder_busy_refuted_lemma. Qed.
Print Assumptions nonflat_inorder_busy_refuted.

(* ... nor on a target busy with something else: Add, Remove, Add arrive in
   order, the second Add is dropped as a duplicate of the queued first *)
Theorem nonflat_dedup_refuted :
  exists (c : pcfg) (steps : list step),
    p_flat c = false /\ p_addonly c = false /\
    forallb oldest_first steps = true /\ steps_wf c steps = true /\
    ends_differing c steps true false.
Proof. exact C18Proofs.nonflat_dedup_refuted_lemma. Qed.
Print Assumptions nonflat_dedup_refuted.

(* ---------------------------------------------------------------- Sync *)

(* pipes.Sync on quiescent machines makes every piped target state follow
   its source state, whatever the target was *)
Theorem sync_restores :
  forall (c : pcfg) (src tg : list N),
    length src = p_n c -> length tg = p_n c ->
    follows (p_n c) src (sync_ticks c src tg) = true.
Proof. exact C18Proofs.sync_restores_lemma. Qed.
Print Assumptions sync_restores.

(* ---------------------------------------------------------------- BindAny *)

(* FALSE: forall n ops, sets_equal (fst (any_run n ops)) (snd (any_run n ops)) = true.
   `target.Is(states)` is a superset test: deactivations never propagate *)
Theorem bindany_equal_sets_refuted :
  exists (n : nat) (ops : list aop),
    sets_equal (fst (any_run n ops)) (snd (any_run n ops)) = false.
Proof. exact C18Proofs.bindany_equal_sets_refuted_lemma. Qed.
Print Assumptions bindany_equal_sets_refuted.

(* what does hold for every history: the target's set contains the source's *)
Theorem bindany_superset :
  forall (n : nat) (ops : list aop),
    subset_b (fst (any_run n ops)) (snd (any_run n ops)) = true.
Proof. exact C18Proofs.bindany_superset_lemma. Qed.
Print Assumptions bindany_superset.

(* ... and equality for histories of Add mutations only *)
Theorem bindany_adds_only_equal :
  forall (n : nat) (ops : list aop),
    adds_only ops = true ->
    sets_equal (fst (any_run n ops)) (snd (any_run n ops)) = true.
Proof. exact C18Proofs.bindany_adds_only_equal_lemma. Qed.
Print Assumptions bindany_adds_only_equal.
