(* C18 - "Pipes make the target follow the source".  Property theorems over
   the delivery model Conc/Pipes.v (source toggle history -> pipe events ->
   forked calls delivered in ANY order -> target queue), stated with the
   predicates of Spec/C18.v.  Nothing but statements closed by [exact].

   [run c steps] executes a schedule: SSrc = a call on the source (SChk a
   CanAdd/CanRemove check, SVeto a mutation vetoed by a later-bound handler,
   SBar an Add of a state that Removes piped state 0, possibly vetoed), SDel i =
   the i-th in-flight forked call reaches the target, SHold / SRel = the
   target is made busy / goes on.  All theorems quantify over every
   configuration (number of states, Multi flags), every toggle history and
   every schedule of the stated class. *)
From Coq Require Import List NArith Bool Arith.
From AMV Require Import Conc.Pipes Spec.C18.
From AMV Require Proofs.C18Proofs.
Import ListNotations.

(* every source call names one of the piped states *)
Definition steps_wf (c : pcfg) (steps : list step) : bool :=
  forallb (C18Proofs.step_wf (p_n c)) steps.

(* the schedule ended in joint quiescence with target and source differing:
   state 0 of the source is [sa], of the target [ta] *)
Definition ends_differing (c : pcfg) (steps : list step) (sa ta : bool) : Prop :=
  let r := run c steps in
  quiescent r = true /\ act (c_src r) 0 = sa /\ act (t_ticks (c_tgt r)) 0 = ta /\
  follows (p_n c) (c_src r) (t_ticks (c_tgt r)) = false.

(* ---------------------------------------------------------------- source *)

(* non-flat pipes (Bind, BindMany, BindReady, BindConnected, BindErr): for
   every history and every schedule - target held or not, calls delivered in
   any order or not at all - every call on the source returns Executed
   (or Canceled by the history's own scripted veto) without waiting for the
   target *)
Theorem source_never_blocked :
  forall (c : pcfg) (steps : list step),
    p_flat c = false ->
    c_blocked (run c steps) = false /\
    src_unhindered (c_srclog (run c steps)) = true.
Proof. exact C18Proofs.source_never_blocked_lemma. Qed.
Print Assumptions source_never_blocked.

(* FALSE for flat (local) pipes: the target's transition runs inside the
   source's final handler; while it is held the source's call does not
   return.
     forall c steps, p_flat c = true -> c_blocked (run c steps) = false *)
Theorem flat_source_stuck_refuted :
  exists (c : pcfg) (steps : list step),
    p_flat c = true /\
    c_blocked (run c steps) = true /\
    src_unhindered (c_srclog (run c steps)) = false.
Proof. exact C18Proofs.flat_source_stuck_refuted_lemma. Qed.
Print Assumptions flat_source_stuck_refuted.

(* which source calls fire a pipe handler: a CanAdd1/CanRemove1 check, a
   mutation vetoed by a handler bound after the pipe (the state's own
   Enter/Exit when it runs, AnyEnter always) and an Add(Bar) vetoed by
   BarEnter after the piped state's Exit handlers ran change neither
   machine, put no call in flight and reach the target with nothing *)
Theorem check_or_veto_silent :
  forall (c : pcfg) (s : cfg) (st : step),
    C18Proofs.silent_step c s st = true ->
    let s' := exec_step c s st in
    c_src s' = c_src s /\ c_tgt s' = c_tgt s /\ c_bag s' = c_bag s /\
    c_dellog s' = c_dellog s /\ exists code, c_evlog s' = c_evlog s ++ [0%N] /\
    c_srclog s' = c_srclog s ++ [code].
Proof. exact C18Proofs.check_or_veto_silent_lemma. Qed.
Print Assumptions check_or_veto_silent.

(* ---------------------------------------------------------------- flat *)

(* flat+local pipe onto a target nobody else keeps busy: after EVERY burst
   the machines are jointly quiescent, every piped target state is active
   exactly when its source state is, and no source call was hindered *)
Theorem flat_local_follows :
  forall (c : pcfg) (steps : list step),
    p_flat c = true -> p_addonly c = false ->
    never_held c steps = true ->
    steps_wf c steps = true ->
    let r := run c steps in
    quiescent r = true /\
    follows (p_n c) (c_src r) (t_ticks (c_tgt r)) = true /\
    src_unhindered (c_srclog r) = true.
Proof. exact C18Proofs.flat_local_follows_lemma. Qed.
Print Assumptions flat_local_follows.

(* ... and on EVERY schedule - target held by slow transitions or by third
   parties, source calls queued behind them - as long as the target machine
   did not drop one of the pipe's calls ([c_lossy]: Remove's early return
   during the negotiation of the Add of the same state / the duplicate skip
   across an opposite mutation).  This is what the idle test of /repo commit
   7687e3a buys: before it the statement was false without any drop
   (corpus flat_busy_skip*.json) *)
Theorem flat_follows_unless_dropped :
  forall (c : pcfg) (steps : list step),
    p_flat c = true -> p_addonly c = false ->
    steps_wf c steps = true ->
    let r := run c steps in
    c_lossy r = (false, false) ->
    quiescent r = true ->
    follows (p_n c) (c_src r) (t_ticks (c_tgt r)) = true.
Proof. exact C18Proofs.flat_follows_unless_dropped_lemma. Qed.
Print Assumptions flat_follows_unless_dropped.

(* FALSE without the [c_lossy] hypothesis, both ways (defects of the target
   MACHINE, not of the pipe): Remove dropped by the early return ... *)
Theorem flat_busy_early_refuted :
  exists (c : pcfg) (steps : list step),
    p_flat c = true /\ p_addonly c = false /\ steps_wf c steps = true /\
    c_lossy (run c steps) = (true, false) /\
    ends_differing c steps false true.
Proof. exact C18Proofs.flat_busy_early_refuted_lemma. Qed.
Print Assumptions flat_busy_early_refuted.

(* ... Add dropped as a duplicate (flat pipes never pass args) *)
Theorem flat_busy_dedup_refuted :
  exists (c : pcfg) (steps : list step),
    p_flat c = true /\ p_addonly c = false /\ steps_wf c steps = true /\
    c_lossy (run c steps) = (false, true) /\
    ends_differing c steps true false.
Proof. exact C18Proofs.flat_busy_dedup_refuted_lemma. Qed.
Print Assumptions flat_busy_dedup_refuted.

(* ---------------------------------------------------------------- non-flat *)

(* FALSE of the model (and of the code):
     forall c steps, p_flat c = false -> p_addonly c = false -> steps_wf c steps = true ->
       quiescent (run c steps) = true ->
       follows (p_n c) (c_src (run c steps)) (t_ticks (c_tgt (run c steps))) = true.
   Add then Remove on the source, the Remove's goroutine reaches the (idle)
   target first: target active, source inactive at joint quiescence *)
Theorem nonflat_reorder_refuted :
  exists (c : pcfg) (steps : list step),
    p_flat c = false /\ p_addonly c = false /\ never_held c steps = true /\
    steps_wf c steps = true /\
    ends_differing c steps false true.
Proof. exact C18Proofs.nonflat_reorder_refuted_lemma. Qed.
Print Assumptions nonflat_reorder_refuted.

(* ... it holds when the calls reach a never-held target oldest first *)
Theorem nonflat_follows_partial :
  forall (c : pcfg) (steps : list step),
    p_flat c = false -> p_addonly c = false ->
    never_held c steps = true ->
    forallb oldest_first steps = true ->
    steps_wf c steps = true ->
    let r := run c steps in
    quiescent r = true ->
    follows (p_n c) (c_src r) (t_ticks (c_tgt r)) = true.
Proof. exact C18Proofs.nonflat_follows_partial_lemma. Qed.
Print Assumptions nonflat_follows_partial.

(* ... more generally when no call overtakes an older call for the SAME
   state ([c_reord] records such an overtaking); calls for different states
   (BindMany, BindConnected) may arrive in any order *)
Theorem nonflat_follows_per_state_order :
  forall (c : pcfg) (steps : list step),
    p_flat c = false -> p_addonly c = false ->
    never_held c steps = true ->
    steps_wf c steps = true ->
    let r := run c steps in
    c_reord r = false ->
    quiescent r = true ->
    follows (p_n c) (c_src r) (t_ticks (c_tgt r)) = true.
Proof. exact C18Proofs.nonflat_follows_per_state_order_lemma. Qed.
Print Assumptions nonflat_follows_per_state_order.

(* ... and on EVERY schedule, held targets included: the only ways to end
   differing are an overtaking within one state ([c_reord]) and the two drops
   by the target machine ([c_lossy]) *)
Theorem nonflat_follows_unless_dropped :
  forall (c : pcfg) (steps : list step),
    p_flat c = false -> p_addonly c = false ->
    steps_wf c steps = true ->
    let r := run c steps in
    c_reord r = false ->
    c_lossy r = (false, false) ->
    quiescent r = true ->
    follows (p_n c) (c_src r) (t_ticks (c_tgt r)) = true.
Proof. exact C18Proofs.nonflat_follows_unless_dropped_lemma. Qed.
Print Assumptions nonflat_follows_unless_dropped.

(* ... and oldest-first delivery alone is NOT enough: while the target's Add
   transition is still in its negotiation phase, EvRemove sees an empty
   queue, a transition in progress and an inactive state, and returns
   Executed without queueing *)
Theorem nonflat_inorder_busy_refuted :
  exists (c : pcfg) (steps : list step),
    p_flat c = false /\ p_addonly c = false /\
    forallb oldest_first steps = true /\ steps_wf c steps = true /\
    ends_differing c steps false true.
Proof. exact C18Proofs.nonflat_inorder_busy_refuted_lemma. Qed.
Print Assumptions nonflat_inorder_busy_refuted.

(* ... nor on a target busy with something else: Add, Remove, Add arrive in
   order, the second Add is dropped as a duplicate of the queued first *)
Theorem nonflat_dedup_refuted :
  exists (c : pcfg) (steps : list step),
    p_flat c = false /\ p_addonly c = false /\
    forallb oldest_first steps = true /\ steps_wf c steps = true /\
    ends_differing c steps true false.
Proof. exact C18Proofs.nonflat_dedup_refuted_lemma. Qed.
Print Assumptions nonflat_dedup_refuted.

(* ---------------------------------------------------------------- Sync *)

(* pipes.Sync on quiescent machines makes every piped target state follow
   its source state, whatever the target was *)
Theorem sync_restores :
  forall (c : pcfg) (src tg : list N),
    length src = p_n c -> length tg = p_n c ->
    follows (p_n c) src (sync_ticks c src tg) = true.
Proof. exact C18Proofs.sync_restores_lemma. Qed.
Print Assumptions sync_restores.

(* ---------------------------------------------------------------- BindAny *)

(* for EVERY history of Add / Remove / Set mutations on the source (idle
   target) the target's active set equals the source's.  True since /repo
   commit fbc0e47 (the skip test compares the sets, not `target.Is(states)`);
   before, deactivations never propagated (corpus bindany_*.json) *)
Theorem bindany_equal_sets :
  forall (n : nat) (ops : list aop),
    sets_equal (fst (any_run n ops)) (snd (any_run n ops)) = true.
Proof. exact C18Proofs.bindany_equal_sets_lemma. Qed.
Print Assumptions bindany_equal_sets.
