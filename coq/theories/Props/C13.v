(* C13 - "Dispose releases every waiter and is safe from anywhere".
   Property theorems over the interleaving model Conc/Dispose.v (any number
   of goroutines of any kinds, any schedule), stated with the predicates of
   Spec/C13.v. Nothing but statements closed by [exact].

   [fx] ranges over the candidate repairs of /repo; [no_fixes] is the code as
   found. A reachable configuration is [exec_sched fx (init_cfg ...) sched]
   for an arbitrary thread list [kinds] and schedule [sched]; outstanding
   subscriptions are threads that ran earlier in the schedule, later calls are
   threads that run afterwards. *)
From Coq Require Import List Bool Arith.
From AMV Require Import Conc.Dispose Spec.C13.
From AMV Require Proofs.C13Proofs.
Import ListNotations.

(* ------------------------------------------------------------ idempotence *)

(* any number of Dispose / DisposeForce calls, racing in any way: every stage
   of doDispose (prepare + close(errInternal), subs.dispose(), cancel() +
   close(whenDisposed)) runs at most once *)
Theorem dispose_idempotent :
  forall (fx : fixes) (handlers : bool) (ndisp : nat) (kinds : list kind) (sched : list nat),
    cfg_stages_once (exec_sched fx (init_cfg handlers ndisp kinds) sched) = true.
Proof. exact C13Proofs.dispose_idempotent_lemma. Qed.
Print Assumptions dispose_idempotent.

(* no dispose handler ever runs twice, and each has run exactly once when the
   disposal is complete *)
Theorem handlers_once :
  forall (fx : fixes) (handlers : bool) (ndisp : nat) (kinds : list kind) (sched : list nat),
    cfg_counts_once (exec_sched fx (init_cfg handlers ndisp kinds) sched) = true.
Proof. exact C13Proofs.handlers_once_lemma. Qed.
Print Assumptions handlers_once.

(* when every goroutine has returned and at least one of them called Dispose
   or DisposeForce, WhenDisposed is closed *)
Theorem dispose_completes :
  forall (fx : fixes) (handlers : bool) (ndisp : nat) (kinds : list kind) (sched : list nat),
    let c := exec_sched fx (init_cfg handlers ndisp kinds) sched in
    (exists t, In t (ths c) /\ is_disposer (th_kind t) = true) ->
    Forall (fun t => th_pc t = PDone) (ths c) ->
    cfg_complete c = true.
Proof. exact C13Proofs.dispose_completes_lemma. Qed.
Print Assumptions dispose_completes.

Example dispose_completes_nonvacuous :
  let c := exec_sched no_fixes (init_cfg true 2 [KDisposeNF; KDispose; KWhen; KAdd])
                      [2; 2; 3; 3; 0; 1; 0; 3; 0; 1; 0; 0; 3; 3] in
  (exists t, In t (ths c) /\ is_disposer (th_kind t) = true) /\
  Forall (fun t => th_pc t = PDone) (ths c) /\ hcounts (dc (sh c)) = [1; 1].
Proof.
  vm_compute. split; [eexists; split; [left; reflexivity | reflexivity]|].
  split; [repeat constructor | reflexivity].
Qed.

(* ------------------------------------------------------------ later calls *)

(* on a disposed machine every call returns in one step, changes nothing and
   yields its neutral value (Closed / Canceled / false / zero) - NewStateCtx
   only under the fix *)
Theorem post_dispose_neutral :
  forall (fx : fixes) (handlers : bool) (ndisp : nat) (kinds : list kind) (sched : list nat) (k : kind),
    let c := exec_sched fx (init_cfg handlers ndisp kinds) sched in
    cfg_complete c = true ->
    (k = KStateCtx -> fx_ctx_closed fx = true) ->
    let p := step_thread fx (sh c) (init_thread k) in
    fst p = sh c /\ th_pc (snd p) = PDone /\ neutral_call k (th_res (snd p)) = true.
Proof. exact C13Proofs.post_dispose_neutral_lemma. Qed.
Print Assumptions post_dispose_neutral.

(* FALSE of the code as found for NewStateCtx: it returns context.TODO(), a
   context nothing ever cancels (corpus/C13/statectx_todo_after_dispose.json) *)
Theorem statectx_todo_refuted :
  exists (handlers : bool) (ndisp : nat) (kinds : list kind) (sched : list nat),
    let c := exec_sched no_fixes (init_cfg handlers ndisp kinds) sched in
    let p := step_thread no_fixes (sh c) (init_thread KStateCtx) in
    cfg_complete c = true /\ neutral_call KStateCtx (th_res (snd p)) = false /\
    released (complete (fst p)) (map w_closed (waiters (rs (fst p)))) = false.
Proof. exact C13Proofs.statectx_todo_refuted_lemma. Qed.
Print Assumptions statectx_todo_refuted.

(* ------------------------------------------------------------ waiters *)

(* FALSE of the code as found:
     forall handlers ndisp kinds sched,
       cfg_released (exec_sched no_fixes (init_cfg handlers ndisp kinds) sched) = true.
   Three independent witnesses. *)

(* (a) Subscriptions.dispose() does not close whenQuery bindings
   (corpus/C13/whenquery_leak.json) *)
Theorem whenquery_leak_refuted :
  exists (handlers : bool) (ndisp : nat) (kinds : list kind) (sched : list nat),
    let c := exec_sched no_fixes (init_cfg handlers ndisp kinds) sched in
    cfg_complete c = true /\ Forall (fun t => th_pc t = PDone) (ths c) /\ cfg_released c = false.
Proof. exact C13Proofs.whenquery_leak_refuted_lemma. Qed.
Print Assumptions whenquery_leak_refuted.

(* (b) even if it did: WhenQuery passes the `disposed` test, doDispose
   completes, WhenQuery then registers into the disposed manager
   (corpus/C13/whenquery_late_binding.json) *)
Theorem late_binding_leak_refuted :
  exists (handlers : bool) (ndisp : nat) (kinds : list kind) (sched : list nat),
    let c := exec_sched C13Proofs.fx_only_close_query (init_cfg handlers ndisp kinds) sched in
    cfg_complete c = true /\ Forall (fun t => th_pc t = PDone) (ths c) /\ cfg_released c = false.
Proof. exact C13Proofs.late_binding_leak_refuted_lemma. Qed.
Print Assumptions late_binding_leak_refuted.

(* (c) "safe from anywhere" is FALSE: while disposing && !disposed (and for a
   When that passed the `disposed` test earlier) mustParseStates returns nil
   and states[0] panics in the caller
   (corpus/C13/when_disposing_window_panic.json, when_late_after_dispose_panic.json) *)
Theorem disposing_window_refuted :
  exists (handlers : bool) (ndisp : nat) (sched : list nat),
    cfg_no_panic (exec_sched no_fixes (init_cfg handlers ndisp [KDispose; KWhen]) sched) = false.
Proof. exact C13Proofs.disposing_window_refuted_lemma. Qed.
Print Assumptions disposing_window_refuted.

Theorem late_when_panic_refuted :
  exists (handlers : bool) (ndisp : nat) (kinds : list kind) (sched : list nat),
    let c := exec_sched no_fixes (init_cfg handlers ndisp kinds) sched in
    cfg_complete c = true /\ cfg_no_panic c = false.
Proof. exact C13Proofs.late_when_panic_refuted_lemma. Qed.
Print Assumptions late_when_panic_refuted.

(* what IS true of the code as found (and under any subset of the fixes):
   once the disposal is complete, every waiter is closed except whenQuery
   bindings and the context.TODO() of NewStateCtx - whenever it was registered
   (before, during or after the disposal) *)
Theorem all_waiters_released_partial :
  forall (fx : fixes) (handlers : bool) (ndisp : nat) (kinds : list kind) (sched : list nat),
    let c := exec_sched fx (init_cfg handlers ndisp kinds) sched in
    released_where releasable (cfg_complete c) (waiters (rs (sh c))) = true.
Proof. exact C13Proofs.all_waiters_released_partial_lemma. Qed.
Print Assumptions all_waiters_released_partial.

(* ... and every waiter registered before subs.dispose() ran, of a kind that
   dispose() closes (whenQuery included once fx_close_query is on) *)
Theorem released_early :
  forall (fx : fixes) (handlers : bool) (ndisp : nat) (kinds : list kind) (sched : list nat),
    let c := exec_sched fx (init_cfg handlers ndisp kinds) sched in
    released_where (early_closable fx) (cfg_complete c) (waiters (rs (sh c))) = true.
Proof. exact C13Proofs.released_early_lemma. Qed.
Print Assumptions released_early.

Example all_waiters_released_partial_nonvacuous :
  let c := exec_sched no_fixes
             (init_cfg false 1 [KDispose; KWhen; KWhenNot; KWhenTime; KWhenArgs; KWhenQueue; KStateCtx; KWhenTime])
             [1; 1; 2; 3; 4; 5; 6; 0; 7; 0; 0; 0; 0] in
  cfg_complete c = true /\ length (waiters (rs (sh c))) = 7 /\ cfg_released c = true.
Proof. vm_compute. auto. Qed.

(* the full statement, under the three repairs (close whenQuery bindings in
   Subscriptions.dispose, re-check `disposed` under the lock in When /
   WhenQuery, cancelled context from NewStateCtx): after the disposal is
   complete EVERY waiter ever handed out is closed *)
Theorem all_waiters_released :
  forall (fx : fixes) (handlers : bool) (ndisp : nat) (kinds : list kind) (sched : list nat),
    fx_close_query fx = true -> fx_recheck fx = true -> fx_ctx_closed fx = true ->
    cfg_released (exec_sched fx (init_cfg handlers ndisp kinds) sched) = true.
Proof. exact C13Proofs.all_waiters_released_lemma. Qed.
Print Assumptions all_waiters_released.

(* (d) Eval in flight while the disposal stands between dispose:subs and
   dispose:end: its timeout branch sends on errInternal, which doDispose has
   closed (corpus/C13/eval_send_on_closed_errinternal.json) *)
Theorem eval_closed_channel_refuted :
  exists (handlers : bool) (ndisp : nat) (sched : list nat),
    cfg_no_panic (exec_sched no_fixes (init_cfg handlers ndisp [KDispose; KEval]) sched) = false.
Proof. exact C13Proofs.eval_closed_channel_refuted_lemma. Qed.
Print Assumptions eval_closed_channel_refuted.

(* (e) a mutation in flight: the workload goroutine has shifted the queue
   (its `disposing` guard is behind), the disposal sets `disposed`,
   newTransition indexes Time(nil) = nil: index out of range in the mutating
   goroutine. Seen on the real code under background load (replay
   2_309_*.json); forced deterministically once /repo has the schedule point
   pq:popped (corpus/C13/add_popped_then_disposed_panic.json) *)
Theorem popped_window_refuted :
  exists (handlers : bool) (ndisp : nat) (sched : list nat),
    cfg_no_panic (exec_sched no_fixes (init_cfg handlers ndisp [KDispose; KAddP]) sched) = false.
Proof. exact C13Proofs.popped_window_refuted_lemma. Qed.
Print Assumptions popped_window_refuted.

(* and no call panics, under the nil guard in When / WhenArgs, with
   errInternal left open (or guarded) and newTransition guarded *)
Theorem no_api_panic :
  forall (fx : fixes) (handlers : bool) (ndisp : nat) (kinds : list kind) (sched : list nat),
    fx_nil_guard fx = true -> fx_err_guard fx = true -> fx_tx_guard fx = true ->
    cfg_no_panic (exec_sched fx (init_cfg handlers ndisp kinds) sched) = true.
Proof. exact C13Proofs.no_api_panic_lemma. Qed.
Print Assumptions no_api_panic.
