(* C09 — property theorems over the protocol model Conc/RpcSync.v.
   Nothing but statements closed by [exact]. Theorems quantify over all
   configurations, snapshots, histories and event lists; refutations give a
   witness that is replayed on the real code by corpus/C09. *)
From Coq Require Import List NArith Bool Arith.
From AMV Require Import Model.RpcCodec Spec.C10 Conc.RpcSync Spec.C09.
From AMV Require Proofs.C09Proofs.
Import ListNotations.
Open Scope N_scope.

(* a full Sync restores the mirror: whatever the client holds (any drift),
   one SyncReq served and delivered leaves it with the source's time and
   queue tick; the server's lastPushData is NOT touched *)
Theorem full_sync_restores :
  forall (p : pcfg) (s : st),
    st_err s = false -> cl_stuck (st_cl s) = false -> st_wire s = [] ->
    s_time (st_cur s) <> [] ->
    length (s_time (st_cur s)) = length (cl_t (st_cl s)) ->
    let s' := exec p s [SyncReq; Settle] in
    client_view s' = (s_time (st_cur s), s_q (st_cur s), 0) /\
    st_wire s' = [] /\ cl_need (st_cl s') = false /\ cl_stuck (st_cl s') = false /\
    st_err s' = false /\ st_sv s' = st_sv s.
Proof. exact C09Proofs.full_sync_restores_lemma. Qed.
Print Assumptions full_sync_restores.

(* ... and with a schema its synchronised entries are the source's for every
   tracked set *)
Theorem full_sync_mirror_ok :
  forall (c : cfg) (src : list N), sync_schema c = true -> mirror_ok c src src = true.
Proof. exact C09Proofs.full_sync_mirror_ok. Qed.
Print Assumptions full_sync_mirror_ok.

(* a client whose read loop is blocked stays as it is whatever happens
   (pushes, replies, syncs, connection drops) *)
Theorem stuck_forever :
  forall (p : pcfg) (es : list ev) (s : st),
    cl_stuck (st_cl s) = true -> st_cl (exec p s es) = st_cl s.
Proof. exact C09Proofs.stuck_forever_lemma. Qed.
Print Assumptions stuck_forever.

(* refutations *)

Theorem reorder_stale_refuted :
  exists (p : pcfg) (s0 s1 s2 : snap),
    p_mut p = false /\ shallow (p_codec p) = false /\
    cfg_wf (p_codec p) (length (s_time s0)) = true /\
    chain_in_range s0 [s1; s2] = true /\ s_m s0 = 0 /\
    let st := exec p (init p s0) [Src s1; Reply; Src s2; Push; Deliver; Write; Deliver] in
    quiescent st = true /\ st_err st = false /\ cl_stuck (st_cl st) = false /\
    st_rejpush st = true /\
    sv_last (st_sv st) = mk_data (p_codec p) s2 /\
    client_view st = (mirror (p_codec p) s1, s_q s1, s_m s1) /\
    mirror_ok (p_codec p) (s_time s2) (cl_t (st_cl st)) = false /\
    forall n, exec p st (concat (repeat [Push; Settle] n)) = st.
Proof. exact C09Proofs.reorder_stale_refuted_lemma. Qed.
Print Assumptions reorder_stale_refuted.

Theorem inorder_converges_refuted :
  exists (p : pcfg) (s0 a b c : snap),
    p_mut p = false /\ shallow (p_codec p) = false /\
    cfg_wf (p_codec p) (length (s_time s0)) = true /\
    chain_in_range s0 [a; b; c] = true /\ s_m s0 = 0 /\
    let st := exec p (init p s0)
                [Src a; Push; Settle; Src b; Push; Settle; Src c; Push; Settle] in
    quiescent st = true /\ st_err st = false /\ cl_stuck (st_cl st) = false /\
    st_silent st = true /\ st_rejpush st = true /\
    mirror_ok (p_codec p) (s_time c) (cl_t (st_cl st)) = false /\
    forall n, exec p st (concat (repeat [Push; Settle] n)) = st.
Proof. exact C09Proofs.inorder_converges_refuted_lemma. Qed.
Print Assumptions inorder_converges_refuted.

Theorem initial_data_push_refuted :
  exists (p : pcfg) (s0 a : snap),
    p_mut p = false /\ shallow (p_codec p) = false /\
    cfg_wf (p_codec p) (length (s_time s0)) = true /\
    chain_in_range s0 [a] = true /\ s_m s0 = 0 /\
    let st := exec p (init p s0) [Push; Settle; Src a; Push; Settle] in
    quiescent st = true /\ st_err st = false /\
    st_initpush st = true /\ st_rejpush st = true /\
    mirror_ok (p_codec p) (s_time a) (cl_t (st_cl st)) = false /\
    forall n, exec p st (concat (repeat [Push; Settle] n)) = st.
Proof. exact C09Proofs.initial_data_push_refuted_lemma. Qed.
Print Assumptions initial_data_push_refuted.

Theorem mutations_push_blocks_refuted :
  exists (p : pcfg) (s0 a : snap),
    p_mut p = true /\ shallow (p_codec p) = false /\
    cfg_wf (p_codec p) (length (s_time s0)) = true /\
    chain_in_range s0 [a] = true /\ s_m s0 = 0 /\
    let st := exec p (init p s0) [Push; Settle; Src a; Push; Settle] in
    st_err st = false /\ cl_stuck (st_cl st) = true /\
    mirror_ok (p_codec p) (s_time a) (cl_t (st_cl st)) = false /\
    forall es, st_cl (exec p st es) = st_cl st.
Proof. exact C09Proofs.mutations_push_blocks_refuted_lemma. Qed.
Print Assumptions mutations_push_blocks_refuted.

Theorem mutation_queue_refuted :
  exists (p : pcfg) (s0 a b c : snap),
    p_mut p = true /\ shallow (p_codec p) = false /\
    cfg_wf (p_codec p) (length (s_time s0)) = true /\
    chain_in_range s0 [a; b; c] = true /\ s_m s0 = 0 /\
    let st := exec p (init p s0)
                [Src a; Push; Settle; Src b; Push; Settle; Src c; Push; Settle] in
    quiescent st = true /\ st_err st = false /\ cl_stuck (st_cl st) = false /\
    st_rejpush st = false /\
    activity_ok (p_codec p) (s_time c) (cl_t (st_cl st)) = true /\
    ticks_ok (p_codec p) (s_time c) (cl_t (st_cl st)) = false /\
    cl_t (st_cl st) = [1; 1 + 4294967296; 1; 0] /\ cl_q (st_cl st) = 4 + 65536.
Proof. exact C09Proofs.mutation_queue_refuted_lemma. Qed.
Print Assumptions mutation_queue_refuted.

Theorem full_sync_partial_refuted :
  exists (p : pcfg) (s0 a b : snap),
    p_mut p = false /\ shallow (p_codec p) = false /\
    cfg_wf (p_codec p) (length (s_time s0)) = true /\
    chain_in_range s0 [a; b] = true /\ s_m s0 = 0 /\
    let st1 := exec p (init p s0) [Src a; SyncReq; Settle] in
    let st := exec p st1 [Src b; Push; Settle] in
    mirror_ok (p_codec p) (s_time a) (cl_t (st_cl st1)) = true /\
    cl_t (st_cl st1) <> mirror (p_codec p) a /\
    quiescent st = true /\ st_err st = false /\ st_rejpush st = true /\
    mirror_ok (p_codec p) (s_time b) (cl_t (st_cl st)) = false /\
    forall n, exec p st (concat (repeat [Push; Settle] n)) = st.
Proof. exact C09Proofs.full_sync_partial_refuted_lemma. Qed.
Print Assumptions full_sync_partial_refuted.

Theorem reconnect_machtick_refuted :
  exists (p : pcfg) (s0 a b : snap),
    p_mut p = false /\ shallow (p_codec p) = false /\
    cfg_wf (p_codec p) (length (s_time s0)) = true /\
    chain_in_range s0 [a; b] = true /\ s_m s0 = 1 /\
    let st1 := exec p (init p s0) [Src a; Push; Settle] in
    let st := exec p st1 [Hello; Src b; Push; Settle] in
    mirror_ok (p_codec p) (s_time a) (cl_t (st_cl st1)) = true /\
    quiescent st = true /\ st_err st = false /\ st_rejpush st = true /\
    mirror_ok (p_codec p) (s_time b) (cl_t (st_cl st)) = false /\
    forall n, exec p st (concat (repeat [Push; Settle] n)) = st.
Proof. exact C09Proofs.reconnect_machtick_refuted_lemma. Qed.
Print Assumptions reconnect_machtick_refuted.

Theorem shallow_push_stale_refuted :
  exists (p : pcfg) (s0 a : snap),
    p_mut p = false /\ shallow (p_codec p) = true /\
    cfg_wf (p_codec p) (length (s_time s0)) = true /\
    chain_in_range s0 [a] = true /\ s_m s0 = 0 /\
    let st := exec p (init p s0) [Src a; Push; Settle] in
    quiescent st = true /\ st_err st = false /\ st_rejpush st = true /\
    mirror_ok (p_codec p) (s_time a) (cl_t (st_cl st)) = false /\
    forall n, exec p st (concat (repeat [Push; Settle] n)) = st.
Proof. exact C09Proofs.shallow_push_stale_refuted_lemma. Qed.
Print Assumptions shallow_push_stale_refuted.
