(* C09 — property theorems over the protocol model Conc/RpcSync.v, which follows
   /repo after the repairs 86fb806, 4b9897e, ca3c269, 8ad26fe, e5ad5bb, aabeecb (and the
   machine-tick repairs 50f5531, b365688, 6a5055c through the probed switches).
   Nothing but statements closed by [exact]. Theorems quantify over all
   configurations, snapshots, histories and event lists; refutations give a
   witness that is replayed on the real code by corpus/C09. *)
From Coq Require Import List NArith Bool Arith.
From AMV Require Import Model.RpcCodec Spec.C10 Conc.RpcSync Spec.C09.
From AMV Require Proofs.C09Proofs.
Import ListNotations.
Open Scope N_scope.

(* (1) in-order delivery converges. For every configuration (schema or not,
   any tracked subset) in deep, cumulative mode, every initial snapshot and
   every history of rounds (any number of source transitions, then ONE export
   - a push or the reply of a client-issued mutation - that is delivered
   before the next one is produced): the mirror is exactly the last snapshot.
   Hypotheses: deltas within the field widths (C10) and a queue tick that moves
   between two pushes (every transition moves it). Since 8ad26fe the former
   extra hypothesis "some synchronised tick moved" is gone (it was necessary:
   the witness is corpus/C09/silent_push.json, now a regression file). *)
Theorem inorder_converges :
  forall (p : pcfg) (s0 : snap) (rs : list round),
    p_mut p = false -> shallow (p_codec p) = false ->
    cfg_wf (p_codec p) (length (s_time s0)) = true -> tracked (p_codec p) <> [] ->
    (p_hello_m p = true \/ s_m s0 = 0) ->
    rounds_ok (p_codec p) s0 rs ->
    let st := exec p (init p s0) (flat_map round_events rs) in
    let y := last_end s0 rs in
    client_view st = (mirror (p_codec p) y, s_q y, s_m y) /\
    mirror_ok (p_codec p) (s_time y) (cl_t (st_cl st)) = true /\
    quiescent st = true /\ st_err st = false /\ cl_stuck (st_cl st) = false.
Proof. exact C09Proofs.inorder_converges_lemma. Qed.
Print Assumptions inorder_converges.

Example inorder_converges_nonvacuous :
  let c := {| sync_schema := false; shallow := false; tracked := [0; 2]%nat |} in
  let p := {| p_codec := c; p_mut := false; p_hello_m := true; p_sync_m := true |} in
  let s0 := {| s_time := [1; 4; 2]; s_q := 7; s_m := 1 |} in
  let a := {| s_time := [3; 9; 2]; s_q := 9; s_m := 1 |} in
  let b := {| s_time := [3; 9; 5]; s_q := 10; s_m := 1 |} in
  let q := {| s_time := [3; 9; 5]; s_q := 11; s_m := 1 |} in   (* only the queue tick moves *)
  let rs := [RPush [] a; RReply [a] b; RPush [] q] in
  rounds_ok c s0 rs /\
  client_view (exec p (init p s0) (flat_map round_events rs)) = ([3; 5], 11, 1).
Proof. vm_compute. repeat split; discriminate. Qed.
Print Assumptions inorder_converges_nonvacuous.

(* (1b) ca3c269: before the first transition after the handshake nothing is
   exported, for every source history and any number of push runs *)
Theorem placeholder_not_pushed :
  forall (p : pcfg) (x : snap) (n : nat),
    exec p (init p x) (concat (repeat [Push; Settle] n)) = init p x.
Proof. exact C09Proofs.placeholder_not_pushed_lemma. Qed.
Print Assumptions placeholder_not_pushed.

(* (2) a mutation made through the network machine: when its reply has been
   processed - the call returns - the mirror already is the snapshot the reply
   was computed from (and nothing remains to be done) *)
Theorem reply_visible_on_return :
  forall (p : pcfg) (s : st) (x y : snap) (hello : bool) (mid : list snap),
    p_mut p = false -> shallow (p_codec p) = false ->
    synced p s x hello ->
    length (s_time x) = length (s_time y) ->
    cfg_wf (p_codec p) (length (s_time x)) = true ->
    snaps_in_range x y = true ->
    tracked (p_codec p) <> [] ->
    let s1 := exec p s (map Src mid ++ [Src y; Reply; Write; Deliver]) in
    synced p s1 y false /\
    mirror_ok (p_codec p) (s_time y) (cl_t (st_cl s1)) = true /\
    exec p s (map Src mid ++ [Src y; Reply; Write; Settle]) = s1.
Proof. exact C09Proofs.reply_visible_lemma. Qed.
Print Assumptions reply_visible_on_return.

(* (3) a full Sync restores the mirror: whatever the client holds (any drift),
   one SyncReq served and delivered leaves it with the source's time and queue
   tick, provided the response has the client's length (a schema, or all states
   tracked); the server's lastPushData is NOT touched *)
Theorem full_sync_restores :
  forall (p : pcfg) (s : st),
    st_err s = false -> cl_stuck (st_cl s) = false -> st_wire s = [] -> st_pend s = None ->
    s_time (st_cur s) <> [] ->
    length (s_time (st_cur s)) = length (cl_t (st_cl s)) ->
    let s' := exec p s [SyncReq; Settle] in
    client_view s' = (s_time (st_cur s), s_q (st_cur s),
                      if p_sync_m p then s_m (st_cur s) else 0) /\
    st_wire s' = [] /\ cl_need (st_cl s') = false /\ cl_stuck (st_cl s') = false /\
    st_err s' = false /\ st_sv s' = st_sv s.
Proof. exact C09Proofs.full_sync_restores_lemma. Qed.
Print Assumptions full_sync_restores.

(* ... and with a schema its synchronised entries are the source's for every
   tracked set *)
Theorem full_sync_mirror_ok :
  forall (c : cfg) (src : list N), sync_schema c = true -> mirror_ok c src src = true.
Proof. exact C09Proofs.full_sync_mirror_ok. Qed.
Print Assumptions full_sync_mirror_ok.

(* (4) "after a detected clock drift the client resynchronises", reply path:
   the reply is rejected, the client requests a full Sync and ends up with the
   source's time *)
Theorem reply_drift_resyncs :
  forall (p : pcfg) (s : st) (x y : snap) (hello : bool),
    p_mut p = false -> shallow (p_codec p) = false ->
    srv_at p s x hello ->
    sv_latest (st_sv s) = Some (mk_data (p_codec p) y) -> st_cur s = y ->
    length (s_time x) = length (s_time y) ->
    cfg_wf (p_codec p) (length (s_time x)) = true ->
    snaps_in_range x y = true ->
    length (cl_t (st_cl s)) = length (mirror (p_codec p) x) ->
    Forall (fun v => v < w64) (cl_t (st_cl s)) -> cl_q (st_cl s) < w64 -> cl_m (st_cl s) < w32 ->
    drifted (p_codec p) x (cl_t (st_cl s)) (cl_q (st_cl s)) (cl_m (st_cl s)) = true ->
    s_time y <> [] -> length (s_time y) = length (cl_t (st_cl s)) ->
    let s' := exec p s [Reply; Write; Settle] in
    client_view s' = (s_time y, s_q y, if p_sync_m p then s_m y else 0) /\
    st_synced s' = true /\ quiescent s' = true /\ st_err s' = false /\
    sv_last (st_sv s') = mk_data (p_codec p) y.
Proof. exact C09Proofs.reply_drift_resyncs_lemma. Qed.
Print Assumptions reply_drift_resyncs.

(* (5) ... and, since 86fb806, push path: for every drifted client the pushed
   diff is rejected, a full Sync is requested and applied. (Before the repair
   the statement was refuted for every drifted client: push_drift_ignored.)
   The hypothesis on the length is RemoteSync's remaining defect: without a
   schema and with an allow / skip list the response is refused, see
   sync_refused_refuted. *)
Theorem push_drift_resyncs :
  forall (p : pcfg) (s : st) (x y : snap) (hello : bool),
    p_mut p = false -> shallow (p_codec p) = false ->
    srv_at p s x hello ->
    sv_latest (st_sv s) = Some (mk_data (p_codec p) y) -> st_cur s = y ->
    length (s_time x) = length (s_time y) ->
    cfg_wf (p_codec p) (length (s_time x)) = true ->
    snaps_in_range x y = true ->
    s_q x <> s_q y ->
    length (cl_t (st_cl s)) = length (mirror (p_codec p) x) ->
    Forall (fun v => v < w64) (cl_t (st_cl s)) -> cl_q (st_cl s) < w64 -> cl_m (st_cl s) < w32 ->
    drifted (p_codec p) x (cl_t (st_cl s)) (cl_q (st_cl s)) (cl_m (st_cl s)) = true ->
    s_time y <> [] -> length (s_time y) = length (cl_t (st_cl s)) ->
    let s' := exec p s [Push; Settle] in
    client_view s' = (s_time y, s_q y, if p_sync_m p then s_m y else 0) /\
    st_rejpush s' = true /\ st_synced s' = true /\ quiescent s' = true /\ st_err s' = false /\
    sv_last (st_sv s') = mk_data (p_codec p) y.
Proof. exact C09Proofs.push_drift_resyncs_lemma. Qed.
Print Assumptions push_drift_resyncs.

(* (6) the reorder, for all snapshots: reply computed (x -> y1), a push
   (y1 -> y2) computed, sent and delivered first, then the reply written and
   delivered. Whenever the checksums of x and y1 differ modulo 256 the push is
   rejected; the Sync it requests waits behind the mutation call (callLock),
   the reply is accepted, then the Sync brings the client to y2: converged.
   (Before 86fb806: stale for ever, reorder_stale_partial.) The checksum
   hypothesis is the boundary of C10 checksum_detects; the length hypothesis is
   RemoteSync's remaining defect, see reorder_sync_refused_refuted. *)
Theorem reorder_converges_partial :
  forall (p : pcfg) (x y1 y2 : snap) (hello : bool) (l0 : tdata) (la : option tdata)
         (qu : list tdata) (errs : nat) (sil rej syn : bool) (np : nat),
    p_mut p = false -> shallow (p_codec p) = false ->
    l0 = srv_believes (p_codec p) hello x ->
    length (s_time x) = length (s_time y1) -> length (s_time y1) = length (s_time y2) ->
    cfg_wf (p_codec p) (length (s_time x)) = true -> tracked (p_codec p) <> [] ->
    snaps_in_range x y1 = true -> snaps_in_range y1 y2 = true ->
    s_q y1 <> s_q y2 ->
    Forall (fun v => v < w64) (mirror (p_codec p) x) -> s_q x < w64 -> s_m x < w32 ->
    drifted (p_codec p) y1 (mirror (p_codec p) x) (s_q x) (s_m x) = true ->
    s_time y2 <> [] -> length (s_time y2) = length (mirror (p_codec p) y1) ->
    let s := mkst (mk_server l0 la qu)
                  (mk_client (mirror (p_codec p) x) (s_q x) (s_m x) false false errs)
                  [] None x sil rej syn np in
    let s1 := exec p s [Src y1; Reply; Src y2; Push; Settle] in
    let st := exec p s1 [Write; Settle] in
    client_view s1 = (mirror (p_codec p) x, s_q x, s_m x) /\ st_rejpush s1 = true /\
    client_view st = (s_time y2, s_q y2, if p_sync_m p then s_m y2 else 0) /\
    sv_last (st_sv st) = mk_data (p_codec p) y2 /\ st_synced st = true /\
    quiescent st = true /\ st_err st = false /\ cl_stuck (st_cl st) = false /\
    (sync_schema (p_codec p) = true ->
     mirror_ok (p_codec p) (s_time y2) (cl_t (st_cl st)) = true).
Proof. exact C09Proofs.reorder_converges_lemma. Qed.
Print Assumptions reorder_converges_partial.

(* (7) since 4b9897e no event blocks the client's read loop: from any state
   whose read loop runs, after any events (pushes, mutation pushes, replies,
   syncs, drops, in any order) it still runs. (Before: a rejected mutations
   push killed it for ever, mutations_push_blocks_refuted + stuck_forever.) *)
Theorem never_blocks :
  forall (p : pcfg) (es : list ev) (s : st),
    cl_stuck (st_cl s) = false -> cl_stuck (st_cl (exec p s es)) = false.
Proof. exact C09Proofs.never_blocks_lemma. Qed.
Print Assumptions never_blocks.

(* positive instances of what the repairs changed, on the former witnesses *)
Theorem mutation_queue_flushed_example :
  let p := C09Proofs.mutp in
  let st := exec p (init p C09Proofs.r1_s0)
              [Src C09Proofs.r3_a; Push; Settle; Src C09Proofs.r3_b; Push; Settle;
               Src C09Proofs.r5_c; Push; Settle] in
  client_view st = ([1; 1; 1; 0], 4, 0) /\ st_rejpush st = false /\
  sv_queue (st_sv st) = [] /\ quiescent st = true.
Proof. exact C09Proofs.mutation_queue_flushed_example. Qed.
Print Assumptions mutation_queue_flushed_example.

Theorem mutations_history_example :
  let p := C09Proofs.mutp in
  let st := exec p (init p C09Proofs.h_s0) [Push; Settle; Src C09Proofs.r3_b; Push; Settle] in
  client_view st = ([1; 1; 0; 0], 3, 0) /\ cl_stuck (st_cl st) = false /\
  st_rejpush st = false.
Proof. exact C09Proofs.mutations_history_example. Qed.
Print Assumptions mutations_history_example.

(* refutations: what still fails on the repaired code *)

(* RemoteSync returns a time slice of the SOURCE's length: without a schema and
   with an allow / skip list Client.Sync refuses it ("wrong clock len"), so no
   drift can ever be repaired. In-order witness with shallow clocks (every
   shallow push is rejected, C10 shallow_accept_refuted) *)
Theorem sync_refused_refuted :
  exists (p : pcfg) (s0 a : snap),
    p_mut p = false /\ sync_schema (p_codec p) = false /\
    cfg_wf (p_codec p) (length (s_time s0)) = true /\
    chain_in_range s0 [a] = true /\ s_m s0 = 0 /\
    let st := exec p (init p s0) [Src a; Push; Settle] in
    quiescent st = true /\ st_err st = false /\ cl_stuck (st_cl st) = false /\
    st_rejpush st = true /\ st_synced st = true /\ cl_errs (st_cl st) = 1%nat /\
    mirror_ok (p_codec p) (s_time a) (cl_t (st_cl st)) = false /\
    forall n, exec p st (concat (repeat [Push; Settle] n)) = st.
Proof. exact C09Proofs.sync_refused_refuted_lemma. Qed.
Print Assumptions sync_refused_refuted.

(* the same with deep clocks, the drift coming from a reply overtaken by a push *)
Theorem reorder_sync_refused_refuted :
  exists (p : pcfg) (s0 y1 y2 : snap),
    p_mut p = false /\ shallow (p_codec p) = false /\ sync_schema (p_codec p) = false /\
    cfg_wf (p_codec p) (length (s_time s0)) = true /\
    chain_in_range s0 [y1; y2] = true /\ s_m s0 = 0 /\
    let st := exec p (init p s0) [Src y1; Reply; Src y2; Push; Settle; Write; Settle] in
    quiescent st = true /\ st_err st = false /\
    st_rejpush st = true /\ cl_errs (st_cl st) = 1%nat /\
    sv_last (st_sv st) = mk_data (p_codec p) y2 /\
    client_view st = (mirror (p_codec p) y1, s_q y1, s_m y1) /\
    mirror_ok (p_codec p) (s_time y2) (cl_t (st_cl st)) = false /\
    forall n, exec p st (concat (repeat [Push; Settle] n)) = st.
Proof. exact C09Proofs.reorder_sync_refused_refuted_lemma. Qed.
Print Assumptions reorder_sync_refused_refuted.

(* RemoteSync does not memorise what it sent: after a Sync() the next push is
   computed against the older lastPushData and rejected although the client was
   exactly current; a second full Sync repairs it *)
Theorem sync_not_memorised_refuted :
  exists (p : pcfg) (s0 a b : snap),
    p_mut p = false /\ shallow (p_codec p) = false /\
    cfg_wf (p_codec p) (length (s_time s0)) = true /\
    chain_in_range s0 [a; b] = true /\ s_m s0 = 0 /\
    let st1 := exec p (init p s0) [Src a; SyncReq; Settle] in
    let st := exec p st1 [Src b; Push; Settle] in
    client_view st1 = (mirror (p_codec p) a, s_q a, s_m a) /\
    st_rejpush st1 = false /\ st_rejpush st = true /\
    client_view st = (mirror (p_codec p) b, s_q b, s_m b) /\ quiescent st = true.
Proof. exact C09Proofs.sync_not_memorised_refuted_lemma. Qed.
Print Assumptions sync_not_memorised_refuted.

(* RemoteSync returns the unfiltered time: with an allow list (and a schema)
   the synced mirror carries untracked ticks, the client's checksum covers them
   and EVERY later push is rejected and answered by another full Sync (the
   synchronised states are right each time) *)
Theorem full_sync_partial_refuted :
  exists (p : pcfg) (s0 a b c : snap),
    p_mut p = false /\ shallow (p_codec p) = false /\
    cfg_wf (p_codec p) (length (s_time s0)) = true /\
    chain_in_range s0 [a; b; c] = true /\ s_m s0 = 0 /\
    let st1 := exec p (init p s0) [Src a; SyncReq; Settle] in
    let st2 := exec p st1 [Src b; Push; Settle] in
    let st3 := exec p (set_flags st2 false false false 0%nat) [Src c; Push; Settle] in
    cl_t (st_cl st1) <> mirror (p_codec p) a /\
    st_rejpush st2 = true /\ mirror_ok (p_codec p) (s_time b) (cl_t (st_cl st2)) = true /\
    cl_t (st_cl st2) <> mirror (p_codec p) b /\
    st_rejpush st3 = true /\ st_synced st3 = true /\
    mirror_ok (p_codec p) (s_time c) (cl_t (st_cl st3)) = true.
Proof. exact C09Proofs.full_sync_partial_refuted_lemma. Qed.
Print Assumptions full_sync_partial_refuted.

(* shallow clocks: every push is rejected (C10) and costs a full Sync *)
Theorem shallow_push_rejected_refuted :
  exists (p : pcfg) (s0 a b : snap),
    p_mut p = false /\ shallow (p_codec p) = true /\
    cfg_wf (p_codec p) (length (s_time s0)) = true /\
    chain_in_range s0 [a; b] = true /\ s_m s0 = 0 /\
    let st1 := exec p (init p s0) [Src a; Push; Settle] in
    let st2 := exec p (set_flags st1 false false false 0%nat) [Src b; Push; Settle] in
    st_rejpush st1 = true /\ st_synced st1 = true /\
    mirror_ok (p_codec p) (s_time a) (cl_t (st_cl st1)) = true /\
    st_rejpush st2 = true /\ st_synced st2 = true /\
    mirror_ok (p_codec p) (s_time b) (cl_t (st_cl st2)) = true.
Proof. exact C09Proofs.shallow_push_rejected_refuted_lemma. Qed.
Print Assumptions shallow_push_rejected_refuted.

(* the unrepaired client side of the machine tick (switches p_hello_m, p_sync_m
   off; /repo contains both repairs, probed on every run;
   corpus/C09/reconnect_machtick.json fails again if one is reverted): every
   push is rejected and the Sync leaves machine tick 0 again *)
Theorem hello_machtick_unrepaired_refuted :
  exists (p : pcfg) (s0 a b : snap),
    p_mut p = false /\ shallow (p_codec p) = false /\ p_hello_m p = false /\ p_sync_m p = false /\
    cfg_wf (p_codec p) (length (s_time s0)) = true /\
    chain_in_range s0 [a; b] = true /\ s_m s0 = 1 /\
    let st1 := exec p (init p s0) [Src a; Push; Settle] in
    let st2 := exec p (set_flags st1 false false false 0%nat) [Src b; Push; Settle] in
    st_rejpush st1 = true /\ cl_m (st_cl st1) = 0 /\
    st_rejpush st2 = true /\ cl_m (st_cl st2) = 0 /\
    mirror_ok (p_codec p) (s_time b) (cl_t (st_cl st2)) = true.
Proof. exact C09Proofs.hello_machtick_refuted_lemma. Qed.
Print Assumptions hello_machtick_unrepaired_refuted.

(* aabeecb: a (re-)Hello starts the session from the handshake clock, for every
   state of the protocol: the tracer's dataQueue is empty, lastPushData and the
   mirror are the source as it is now, nothing is in flight. (Before:
   hello_keeps_queue_refuted - the mutations recorded before the Hello were
   replayed below lastPushData and wrapped to 2^32 / 2^16.) *)
Theorem hello_restarts :
  forall (p : pcfg) (s : st),
    st_err s = false -> cl_stuck (st_cl s) = false ->
    let s' := step p s Hello in
    let x := st_cur s in
    sv_queue (st_sv s') = [] /\
    client_view s' = (mirror (p_codec p) x, s_q x, if p_hello_m p then s_m x else 0) /\
    d_mtime (sv_last (st_sv s')) = Some (mirror (p_codec p) x) /\
    d_q (sv_last (st_sv s')) = s_q x /\ d_m (sv_last (st_sv s')) = s_m x /\
    st_wire s' = [] /\ st_pend s' = None /\ cl_need (st_cl s') = false /\ st_err s' = false.
Proof. exact C09Proofs.hello_restarts_lemma. Qed.
Print Assumptions hello_restarts.

Theorem mutations_reconnect_example :
  let p := C09Proofs.mutp in
  let st := exec p (init p C09Proofs.r1_s0)
              [Src C09Proofs.r3_a; Src C09Proofs.r3_b; Hello; Src C09Proofs.r5_c; Push; Settle] in
  client_view st = ([1; 1; 1; 0], 4, 0) /\ st_rejpush st = false /\
  quiescent st = true /\ st_err st = false.
Proof. exact C09Proofs.mutations_reconnect_example. Qed.
Print Assumptions mutations_reconnect_example.

(* shallow clocks after a Sync(): RemoteSync did not update lastPushData, so the
   reply of the next mutation is a diff against the older belief; the shallow
   checksums (client: number of tracked states + queue tick; server: number of
   active states + queue tick) coincide and the wrong diff is ACCEPTED - wrong
   parity and queue tick, no Sync requested, stale for ever *)
Theorem shallow_stale_belief_refuted :
  exists (p : pcfg) (s0 a b : snap),
    p_mut p = false /\ shallow (p_codec p) = true /\
    cfg_wf (p_codec p) (length (s_time s0)) = true /\
    chain_in_range s0 [a; b] = true /\ s_m s0 = 0 /\
    let st1 := exec p (init p s0) [Src a; SyncReq; Settle] in
    let st := exec p st1 [Src b; Reply; Write; Settle] in
    mirror_ok (p_codec p) (s_time a) (cl_t (st_cl st1)) = true /\
    quiescent st = true /\ st_err st = false /\
    st_rejpush st = false /\ cl_need (st_cl st) = false /\ st_synced st = st_synced st1 /\
    cl_q (st_cl st) <> s_q b /\
    mirror_ok (p_codec p) (s_time b) (cl_t (st_cl st)) = false /\
    forall n, exec p st (concat (repeat [Push; Settle] n)) = st.
Proof. exact C09Proofs.shallow_stale_belief_refuted_lemma. Qed.
Print Assumptions shallow_stale_belief_refuted.

(* (8) in-order delivery converges in per-mutation mode (SyncMutations), the
   analogue of inorder_converges. Vocabulary (Proofs/C09Muts.v):
     C09Muts.mround_events ss = map Src ss ++ [Push; Settle]  - a push round:
       any number of source transitions (each queues its snapshot in the
       tracer's dataQueue, untracked-only ones included), then one push whose
       mutations message is delivered;
     C09Muts.mrounds_ok s0 rs - along every queued chain C10's hypotheses
       (C10Proofs.chain_ok: equal lengths, every consecutive pair within the
       field widths, exactly as in C10 mutation_chain) and a queue tick that
       moved between two exports;
     C09Muts.mlast s0 rs - the last snapshot.
   For every configuration (schema or not, any tracked subset), deep clocks,
   every initial snapshot and every history of rounds (empty rounds = idle push
   runs included), no cut: after the last round the mirror is exactly the
   source's latest snapshot on the tracked states, queue tick and machine tick
   included, the mutation queue is empty and no diff was rejected. The codec
   part is C10's round trip (roundtrip_deep_eq, from which mutation_chain is
   proved) applied along the chain, starting from the Hello data. *)
From AMV Require Proofs.C10Proofs Proofs.C09Muts.

Theorem inorder_converges_mutations :
  forall (p : pcfg) (s0 : snap) (rs : list (list snap)),
    p_mut p = true -> shallow (p_codec p) = false ->
    cfg_wf (p_codec p) (length (s_time s0)) = true -> tracked (p_codec p) <> [] ->
    (p_hello_m p = true \/ s_m s0 = 0) ->
    C09Muts.mrounds_ok s0 rs ->
    let st := exec p (init p s0) (flat_map C09Muts.mround_events rs) in
    let y := C09Muts.mlast s0 rs in
    client_view st = (mirror (p_codec p) y, s_q y, s_m y) /\
    mirror_ok (p_codec p) (s_time y) (cl_t (st_cl st)) = true /\
    sv_queue (st_sv st) = [] /\
    quiescent st = true /\ st_err st = false /\ cl_stuck (st_cl st) = false /\
    st_rejpush st = false.
Proof. exact C09Muts.inorder_converges_mutations_lemma. Qed.
Print Assumptions inorder_converges_mutations.

(* non-vacuity: no schema, tracked {S0, S2} of 3 states, MachineTick 1; round 1
   queues TWO mutations (the second moves only the untracked S1: a diff without
   indexes, queue tick +1) and pushes them in one message, round 2 is an idle
   push run, round 3 one mutation *)
Theorem inorder_converges_mutations_nonvacuous :
  let p := C09Muts.nv_p in
  let s0 := C09Muts.nv_s0 in
  let rs := [[C09Muts.nv_a; C09Muts.nv_b]; []; [C09Muts.nv_c3]] in
  p_mut p = true /\ shallow (p_codec p) = false /\
  cfg_wf (p_codec p) (length (s_time s0)) = true /\ tracked (p_codec p) <> [] /\
  C09Muts.mrounds_ok s0 rs /\
  (exists u1 u2,
     st_wire (exec p (init p s0) [Src C09Muts.nv_a; Src C09Muts.nv_b; Push]) = [WMuts [u1; u2]]
     /\ u_idx u2 = [] /\ u_q u2 = 1) /\
  client_view (exec p (init p s0) (flat_map C09Muts.mround_events rs)) = ([2; 3], 10, 1).
Proof. exact C09Muts.inorder_converges_mutations_nonvacuous_lemma. Qed.
Print Assumptions inorder_converges_mutations_nonvacuous.
