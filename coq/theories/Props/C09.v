(* C09 — property theorems over the protocol model Conc/RpcSync.v.
   Nothing but statements closed by [exact]. Theorems quantify over all
   configurations, snapshots, histories and event lists; refutations give a
   witness that is replayed on the real code by corpus/C09. *)
From Coq Require Import List NArith Bool Arith.
From AMV Require Import Model.RpcCodec Spec.C10 Conc.RpcSync Spec.C09.
From AMV Require Proofs.C09Proofs.
Import ListNotations.
Open Scope N_scope.

(* a full Sync restores the mirror: whatever the client holds (any drift),
   one SyncReq served and delivered leaves it with the source's time and
   queue tick; the server's lastPushData is NOT touched *)
Theorem full_sync_restores :
  forall (p : pcfg) (s : st),
    st_err s = false -> cl_stuck (st_cl s) = false -> st_wire s = [] ->
    s_time (st_cur s) <> [] ->
    length (s_time (st_cur s)) = length (cl_t (st_cl s)) ->
    let s' := exec p s [SyncReq; Settle] in
    client_view s' = (s_time (st_cur s), s_q (st_cur s),
                      if p_sync_m p then s_m (st_cur s) else 0) /\
    st_wire s' = [] /\ cl_need (st_cl s') = false /\ cl_stuck (st_cl s') = false /\
    st_err s' = false /\ st_sv s' = st_sv s.
Proof. exact C09Proofs.full_sync_restores_lemma. Qed.
Print Assumptions full_sync_restores.

(* ... and with a schema its synchronised entries are the source's for every
   tracked set *)
Theorem full_sync_mirror_ok :
  forall (c : cfg) (src : list N), sync_schema c = true -> mirror_ok c src src = true.
Proof. exact C09Proofs.full_sync_mirror_ok. Qed.
Print Assumptions full_sync_mirror_ok.

(* a client whose read loop is blocked stays as it is whatever happens
   (pushes, replies, syncs, connection drops) *)
Theorem stuck_forever :
  forall (p : pcfg) (es : list ev) (s : st),
    cl_stuck (st_cl s) = true -> st_cl (exec p s es) = st_cl s.
Proof. exact C09Proofs.stuck_forever_lemma. Qed.
Print Assumptions stuck_forever.

(* (1) in-order delivery converges. For every configuration (schema or not,
   any tracked subset) in deep, cumulative mode, every initial snapshot and
   every history of rounds (any number of source transitions, then ONE export
   - a push or the reply of a client-issued mutation - that is delivered
   before the next one is produced): the mirror is exactly the last snapshot.
   Hypotheses: deltas within the field widths (C10), and every PUSH round
   exports a snapshot whose queue tick and some synchronised tick moved -
   without it the statement is false, see inorder_converges_refuted. *)
Theorem inorder_converges :
  forall (p : pcfg) (s0 : snap) (rs : list round),
    p_mut p = false -> shallow (p_codec p) = false ->
    cfg_wf (p_codec p) (length (s_time s0)) = true -> tracked (p_codec p) <> [] ->
    (p_hello_m p = true \/ s_m s0 = 0) ->
    rounds_ok (p_codec p) s0 rs ->
    let st := exec p (init p s0) (flat_map round_events rs) in
    let y := last_end s0 rs in
    client_view st = (mirror (p_codec p) y, s_q y, s_m y) /\
    mirror_ok (p_codec p) (s_time y) (cl_t (st_cl st)) = true /\
    quiescent st = true /\ st_err st = false /\ cl_stuck (st_cl st) = false.
Proof. exact C09Proofs.inorder_converges_lemma. Qed.
Print Assumptions inorder_converges.

Example inorder_converges_nonvacuous :
  let c := {| sync_schema := false; shallow := false; tracked := [0; 2]%nat |} in
  let p := {| p_codec := c; p_mut := false; p_hello_m := true; p_sync_m := true |} in
  let s0 := {| s_time := [1; 4; 2]; s_q := 7; s_m := 1 |} in
  let a := {| s_time := [3; 9; 2]; s_q := 9; s_m := 1 |} in
  let b := {| s_time := [3; 9; 5]; s_q := 10; s_m := 1 |} in
  let rs := [RPush [] a; RReply [a] b] in
  rounds_ok c s0 rs /\
  cl_t (st_cl (exec p (init p s0) (flat_map round_events rs))) = [3; 5].
Proof. vm_compute. repeat split; discriminate. Qed.
Print Assumptions inorder_converges_nonvacuous.

(* (2) a mutation made through the network machine: when its reply has been
   processed - the call returns - the mirror already is the snapshot the reply
   was computed from (and nothing remains to be done) *)
Theorem reply_visible_on_return :
  forall (p : pcfg) (s : st) (x y : snap) (hello : bool) (mid : list snap),
    p_mut p = false -> shallow (p_codec p) = false ->
    synced p s x hello ->
    length (s_time x) = length (s_time y) ->
    cfg_wf (p_codec p) (length (s_time x)) = true ->
    snaps_in_range x y = true ->
    tracked (p_codec p) <> [] ->
    let s1 := exec p s (map Src mid ++ [Src y; Reply; Write; Deliver]) in
    synced p s1 y false /\
    mirror_ok (p_codec p) (s_time y) (cl_t (st_cl s1)) = true /\
    exec p s (map Src mid ++ [Src y; Reply; Write; Settle]) = s1.
Proof. exact C09Proofs.reply_visible_lemma. Qed.
Print Assumptions reply_visible_on_return.

(* (3) a detected drift on the reply path is repaired: the reply is rejected,
   the client requests a full Sync and ends up with the source's time *)
Theorem reply_drift_resyncs :
  forall (p : pcfg) (s : st) (x y : snap) (hello : bool),
    p_mut p = false -> shallow (p_codec p) = false ->
    srv_at p s x hello ->
    sv_latest (st_sv s) = Some (mk_data (p_codec p) y) -> st_cur s = y ->
    length (s_time x) = length (s_time y) ->
    cfg_wf (p_codec p) (length (s_time x)) = true ->
    snaps_in_range x y = true ->
    length (cl_t (st_cl s)) = length (mirror (p_codec p) x) ->
    Forall (fun v => v < w64) (cl_t (st_cl s)) -> cl_q (st_cl s) < w64 -> cl_m (st_cl s) < w32 ->
    drifted (p_codec p) x (cl_t (st_cl s)) (cl_q (st_cl s)) (cl_m (st_cl s)) = true ->
    s_time y <> [] -> length (s_time y) = length (cl_t (st_cl s)) ->
    let s' := exec p s [Reply; Write; Settle] in
    client_view s' = (s_time y, s_q y, if p_sync_m p then s_m y else 0) /\
    st_synced s' = true /\ quiescent s' = true /\ st_err s' = false /\
    sv_last (st_sv s') = mk_data (p_codec p) y.
Proof. exact C09Proofs.reply_drift_resyncs_lemma. Qed.
Print Assumptions reply_drift_resyncs.

(* (4) ... but NOT on the push path (this refutes "after a detected clock
   drift the client resynchronises" for pushes, for every drifted client):
   the update is rejected, the client stays exactly as it is, no Sync is
   requested, and the server now believes the client holds snapshot y *)
Theorem push_drift_ignored :
  forall (p : pcfg) (s : st) (x y : snap) (hello : bool),
    p_mut p = false -> shallow (p_codec p) = false ->
    srv_at p s x hello ->
    sv_latest (st_sv s) = Some (mk_data (p_codec p) y) ->
    length (s_time x) = length (s_time y) ->
    cfg_wf (p_codec p) (length (s_time x)) = true ->
    snaps_in_range x y = true ->
    s_q x <> s_q y -> tracked_changed (p_codec p) x y = true ->
    length (cl_t (st_cl s)) = length (mirror (p_codec p) x) ->
    Forall (fun v => v < w64) (cl_t (st_cl s)) -> cl_q (st_cl s) < w64 -> cl_m (st_cl s) < w32 ->
    drifted (p_codec p) x (cl_t (st_cl s)) (cl_q (st_cl s)) (cl_m (st_cl s)) = true ->
    let s' := exec p s [Push; Settle] in
    st_cl s' = st_cl s /\ st_rejpush s' = true /\
    sv_last (st_sv s') = mk_data (p_codec p) y /\
    srv_at p s' y false.
Proof. exact C09Proofs.push_drift_ignored_lemma. Qed.
Print Assumptions push_drift_ignored.

(* (5) the reorder, for all snapshots: reply computed (x -> y1), a push
   (y1 -> y2) computed, sent and delivered first, then the reply written and
   delivered. Whenever the checksums of x and y1 differ modulo 256 the push is
   rejected and dropped, the reply is accepted, the client holds y1, the
   server believes y2, and no later push run changes anything: stale for ever.
   (The full statement "one of them is rejected" without the checksum
   hypothesis is false: 256 | sum difference makes the wrong push acceptable,
   C10 checksum_detects is exactly this boundary.) *)
Theorem reorder_stale_partial :
  forall (p : pcfg) (x y1 y2 : snap) (hello : bool) (l0 : tdata) (la : option tdata)
         (qu : list tdata) (errs : nat) (sil rej syn : bool) (np : nat),
    p_mut p = false -> shallow (p_codec p) = false ->
    l0 = srv_believes (p_codec p) hello x ->
    length (s_time x) = length (s_time y1) -> length (s_time y1) = length (s_time y2) ->
    cfg_wf (p_codec p) (length (s_time x)) = true -> tracked (p_codec p) <> [] ->
    snaps_in_range x y1 = true -> snaps_in_range y1 y2 = true ->
    s_q y1 <> s_q y2 -> tracked_changed (p_codec p) y1 y2 = true ->
    Forall (fun v => v < w64) (mirror (p_codec p) x) -> s_q x < w64 -> s_m x < w32 ->
    drifted (p_codec p) y1 (mirror (p_codec p) x) (s_q x) (s_m x) = true ->
    let s := mkst (mk_server l0 la qu)
                  (mk_client (mirror (p_codec p) x) (s_q x) (s_m x) false false errs)
                  [] None x sil rej syn np in
    let st := exec p s [Src y1; Reply; Src y2; Push; Deliver; Write; Deliver] in
    client_view st = (mirror (p_codec p) y1, s_q y1, s_m y1) /\
    sv_last (st_sv st) = mk_data (p_codec p) y2 /\ st_rejpush st = true /\
    quiescent st = true /\ st_err st = false /\ cl_stuck (st_cl st) = false /\
    mirror_ok (p_codec p) (s_time y2) (cl_t (st_cl st)) = false /\
    forall n, exec p st (concat (repeat [Push; Settle] n)) = st.
Proof. exact C09Proofs.reorder_stale_lemma. Qed.
Print Assumptions reorder_stale_partial.

(* refutations *)

Theorem reorder_stale_refuted :
  exists (p : pcfg) (s0 s1 s2 : snap),
    p_mut p = false /\ shallow (p_codec p) = false /\
    cfg_wf (p_codec p) (length (s_time s0)) = true /\
    chain_in_range s0 [s1; s2] = true /\ s_m s0 = 0 /\
    let st := exec p (init p s0) [Src s1; Reply; Src s2; Push; Deliver; Write; Deliver] in
    quiescent st = true /\ st_err st = false /\ cl_stuck (st_cl st) = false /\
    st_rejpush st = true /\
    sv_last (st_sv st) = mk_data (p_codec p) s2 /\
    client_view st = (mirror (p_codec p) s1, s_q s1, s_m s1) /\
    mirror_ok (p_codec p) (s_time s2) (cl_t (st_cl st)) = false /\
    forall n, exec p st (concat (repeat [Push; Settle] n)) = st.
Proof. exact C09Proofs.reorder_stale_refuted_lemma. Qed.
Print Assumptions reorder_stale_refuted.

Theorem inorder_converges_refuted :
  exists (p : pcfg) (s0 a b c : snap),
    p_mut p = false /\ shallow (p_codec p) = false /\
    cfg_wf (p_codec p) (length (s_time s0)) = true /\
    chain_in_range s0 [a; b; c] = true /\ s_m s0 = 0 /\
    let st := exec p (init p s0)
                [Src a; Push; Settle; Src b; Push; Settle; Src c; Push; Settle] in
    quiescent st = true /\ st_err st = false /\ cl_stuck (st_cl st) = false /\
    st_silent st = true /\ st_rejpush st = true /\
    mirror_ok (p_codec p) (s_time c) (cl_t (st_cl st)) = false /\
    forall n, exec p st (concat (repeat [Push; Settle] n)) = st.
Proof. exact C09Proofs.inorder_converges_refuted_lemma. Qed.
Print Assumptions inorder_converges_refuted.

Theorem initial_data_push_refuted :
  exists (p : pcfg) (s0 a : snap),
    p_mut p = false /\ shallow (p_codec p) = false /\
    cfg_wf (p_codec p) (length (s_time s0)) = true /\
    chain_in_range s0 [a] = true /\ s_m s0 = 0 /\
    let st := exec p (init p s0) [Push; Settle; Src a; Push; Settle] in
    quiescent st = true /\ st_err st = false /\
    st_initpush st = true /\ st_rejpush st = true /\
    mirror_ok (p_codec p) (s_time a) (cl_t (st_cl st)) = false /\
    forall n, exec p st (concat (repeat [Push; Settle] n)) = st.
Proof. exact C09Proofs.initial_data_push_refuted_lemma. Qed.
Print Assumptions initial_data_push_refuted.

Theorem mutations_push_blocks_refuted :
  exists (p : pcfg) (s0 a : snap),
    p_mut p = true /\ shallow (p_codec p) = false /\
    cfg_wf (p_codec p) (length (s_time s0)) = true /\
    chain_in_range s0 [a] = true /\ s_m s0 = 0 /\
    let st := exec p (init p s0) [Push; Settle; Src a; Push; Settle] in
    st_err st = false /\ cl_stuck (st_cl st) = true /\
    mirror_ok (p_codec p) (s_time a) (cl_t (st_cl st)) = false /\
    forall es, st_cl (exec p st es) = st_cl st.
Proof. exact C09Proofs.mutations_push_blocks_refuted_lemma. Qed.
Print Assumptions mutations_push_blocks_refuted.

Theorem mutation_queue_refuted :
  exists (p : pcfg) (s0 a b c : snap),
    p_mut p = true /\ shallow (p_codec p) = false /\
    cfg_wf (p_codec p) (length (s_time s0)) = true /\
    chain_in_range s0 [a; b; c] = true /\ s_m s0 = 0 /\
    let st := exec p (init p s0)
                [Src a; Push; Settle; Src b; Push; Settle; Src c; Push; Settle] in
    quiescent st = true /\ st_err st = false /\ cl_stuck (st_cl st) = false /\
    st_rejpush st = false /\
    activity_ok (p_codec p) (s_time c) (cl_t (st_cl st)) = true /\
    ticks_ok (p_codec p) (s_time c) (cl_t (st_cl st)) = false /\
    cl_t (st_cl st) = [1; 1 + 4294967296; 1; 0] /\ cl_q (st_cl st) = 4 + 65536.
Proof. exact C09Proofs.mutation_queue_refuted_lemma. Qed.
Print Assumptions mutation_queue_refuted.

Theorem full_sync_partial_refuted :
  exists (p : pcfg) (s0 a b : snap),
    p_mut p = false /\ shallow (p_codec p) = false /\
    cfg_wf (p_codec p) (length (s_time s0)) = true /\
    chain_in_range s0 [a; b] = true /\ s_m s0 = 0 /\
    let st1 := exec p (init p s0) [Src a; SyncReq; Settle] in
    let st := exec p st1 [Src b; Push; Settle] in
    mirror_ok (p_codec p) (s_time a) (cl_t (st_cl st1)) = true /\
    cl_t (st_cl st1) <> mirror (p_codec p) a /\
    quiescent st = true /\ st_err st = false /\ st_rejpush st = true /\
    mirror_ok (p_codec p) (s_time b) (cl_t (st_cl st)) = false /\
    forall n, exec p st (concat (repeat [Push; Settle] n)) = st.
Proof. exact C09Proofs.full_sync_partial_refuted_lemma. Qed.
Print Assumptions full_sync_partial_refuted.

(* the unrepaired client (HandshakeDone ignores the Hello's MachineTick): on a
   source whose MachineTick is not 0 every diff fails the checksum. /repo now
   contains the repair (switch p_hello_m, probed by the harness on every run);
   corpus/C09/reconnect_machtick.json fails again if it is reverted *)
Theorem hello_machtick_unrepaired_refuted :
  exists (p : pcfg) (s0 a : snap),
    p_mut p = false /\ shallow (p_codec p) = false /\ p_hello_m p = false /\
    cfg_wf (p_codec p) (length (s_time s0)) = true /\
    chain_in_range s0 [a] = true /\ s_m s0 = 1 /\
    let st := exec p (init p s0) [Src a; Push; Settle] in
    quiescent st = true /\ st_err st = false /\ st_rejpush st = true /\
    mirror_ok (p_codec p) (s_time a) (cl_t (st_cl st)) = false /\
    forall n, exec p st (concat (repeat [Push; Settle] n)) = st.
Proof. exact C09Proofs.hello_machtick_refuted_lemma. Qed.
Print Assumptions hello_machtick_unrepaired_refuted.

Theorem shallow_push_stale_refuted :
  exists (p : pcfg) (s0 a : snap),
    p_mut p = false /\ shallow (p_codec p) = true /\
    cfg_wf (p_codec p) (length (s_time s0)) = true /\
    chain_in_range s0 [a] = true /\ s_m s0 = 0 /\
    let st := exec p (init p s0) [Src a; Push; Settle] in
    quiescent st = true /\ st_err st = false /\ st_rejpush st = true /\
    mirror_ok (p_codec p) (s_time a) (cl_t (st_cl st)) = false /\
    forall n, exec p st (concat (repeat [Push; Settle] n)) = st.
Proof. exact C09Proofs.shallow_push_stale_refuted_lemma. Qed.
Print Assumptions shallow_push_stale_refuted.
